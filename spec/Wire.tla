-------------------------------- MODULE Wire ---------------------------------
(***************************************************************************)
(* The wire protocol: EncodeError / DecodeError (errbase/encode.go,         *)
(* decode.go, opaque.go and every registered encoder / decoder).            *)
(* A wire node mirrors errorspb.EncodedError:                               *)
(*   k    "leaf" | "wrap"          fam/tn/ext  error_type_mark, type name   *)
(*   msg  message                  full        message_type = FULL_MESSAGE  *)
(*   rp   reportable payload that decoders read (domain, keys, links ...)   *)
(*   pay  <<>> or <<payload>> (the Any full_details)                        *)
(*   kids the cause (wrap) or the multierror_causes (leaf)                  *)
(* `known` is the set of families the receiving process can decode ("*" =   *)
(* everything this build of the library knows).                             *)
(***************************************************************************)
EXTENDS Accessors

P(t, s, a, w, mk) == [t |-> t, s |-> s, a |-> a, w |-> w, mk |-> mk]

W(k, msg, fam, tn, ext, full, rp, pay, kids) ==
  [k |-> k, msg |-> msg, fam |-> fam, tn |-> tn, ext |-> ext, full |-> full,
   rp |-> rp, pay |-> pay, kids |-> kids]

\* what an opaque value remembers of the node it was decoded from
OOf(w) == [fam |-> w.fam, tn |-> w.tn, ext |-> w.ext, full |-> w.full, msg |-> w.msg,
           rp |-> w.rp, pay |-> w.pay]

\* families for which this build registers a decoder
DecodableFam ==
  {"leafError", "withPrefix", "withNewMessage", "withHint", "withDetail", "withSafeDetails",
   "withTelemetry", "withDomain", "withIssueLink", "unimplementedError", "withContext",
   "withAssertionFailure", "withMark", "withSecondaryError", "barrierErr", "joinError",
   "withHTTPCode", "withGrpcCode", "goErr", "ctxDeadline", "errno", "pkgWithMessage",
   "osPathError", "osLinkError", "osSyscallError", "uRegLeaf", "grpcStatus", "gogoStatus",
   "uRegWrap", "uRegWrapFull", "uRegMulti"}

Knows(known, fam) == ("*" \in known \/ fam \in known) /\ fam \in DecodableFam

---------------------------------------------------------------------------
RECURSIVE Enc(_, _, _)
RECURSIVE EncSeq(_, _, _)
EncSeq(vs, reg, D) == IF vs = <<>> THEN <<>> ELSE <<Enc(vs[1], reg, D)>> \o EncSeq(Tail(vs), reg, D)

Enc(v, reg, D) ==
  LET fam == Fam(v, reg)
      tn  == TypeName(v)
      ext == Ext(v)
      kidsW == EncSeq(v.kids, reg, D)
      Leaf(msg, rp, pay) == W("leaf", msg, fam, tn, ext, FALSE, rp, pay, kidsW)
      Wrap(msg, full, rp, pay) == W("wrap", msg, fam, tn, ext, full, rp, pay, kidsW)
      \* no registered encoder: the prefix is extracted from the texts
      Generic(rp) == LET x == ExtractPrefix(Text(v), Text(v.kids[1])) IN Wrap(x.s, x.full, rp, <<>>)
  IN
  CASE v.ty \in {"opaqueLeaf", "opaqueLeafCauses"} -> Leaf(v.o.msg, v.o.rp, v.o.pay)
    [] v.ty = "opaqueWrapper" -> Wrap(v.o.msg, v.o.full, v.o.rp, v.o.pay)
    \* ---- leaves
    [] v.ty = "leafError" -> Leaf(Text(v), <<>>, <<P("String", v.s, <<>>, <<>>, <<>>)>>)
    [] v.ty = "errno" -> Leaf(Text(v), <<>>, <<P("Errno", <<>>, v.a, <<>>, <<>>)>>)
    [] v.ty = "opaqueErrno" -> Leaf(Text(v), <<>>, <<P("Errno", <<>>, v.a, <<>>, <<>>)>>)
    [] v.ty = "unimplementedError" -> Leaf(v.s, v.a, <<>>)
    [] v.ty = "barrierErr" -> Leaf(v.s, <<>>, <<P("EncodedError", <<>>, <<>>, <<Enc(v.hid[1], reg, D)>>, <<>>)>>)
    [] v.ty = "uRegLeaf" -> Leaf(v.s, <<>>, <<P("String", v.s, <<>>, <<>>, <<>>)>>)
    \* (the code's encoder sends the description only, without the "rpc error: code = ..."
    \* head: deviation GrpcStatusSendsDescription, extgrpc/ext_grpc.go encodeGrpcStatus)
    [] v.ty = "grpcStatus" -> Leaf(IF "GrpcStatusSendsDescription" \in D THEN Tail(v.s) ELSE v.s, <<>>,
                                   <<P("Status", v.s, <<>>, <<>>, <<>>)>>)
    [] v.ty = "uProtoLeaf" -> Leaf(v.s, <<>>, <<P("uProto", v.s, <<>>, <<>>, <<>>)>>)
    [] v.ty \in LeafTy /\ ~IsWrap(v) -> Leaf(Text(v), <<>>, <<>>)
    \* ---- multi-cause nodes travel as leaves with causes
    [] v.ty = "joinError" -> Leaf(IF "JoinEncodesEmptyMsg" \in D THEN <<>> ELSE Text(v), <<>>, <<>>)
    \* (a multi-cause node that also has Cause() is a wrapper to EncodeError: UnwrapOnce finds
    \* its first branch, the other branches do not travel)
    [] v.ty = "uMultiCause" ->
         LET x == ExtractPrefix(Text(v), Text(v.kids[1])) IN
         W("wrap", x.s, fam, tn, ext, x.full, <<>>, <<>>, <<Enc(v.kids[1], reg, D)>>)
    \* (user multi-cause type registered with RegisterMultiCauseEncoder / Decoder)
    [] v.ty = "uRegMulti" -> Leaf(v.s, <<>>, <<P("String", v.s, <<>>, <<>>, <<>>)>>)
    [] v.ty \in MultiTy -> Leaf(Text(v), <<>>, <<>>)
    \* ---- wrappers with a registered encoder
    [] v.ty = "withPrefix" ->
         Wrap(IF "PrefixEncoderSendsFullText" \in D THEN Text(v) ELSE v.s, FALSE, <<>>,
              <<P("String", v.s, <<>>, <<>>, <<>>)>>)
    [] v.ty = "withNewMessage" ->
         Wrap(v.s, "NewMessageEncodedAsPrefix" \notin D, <<>>, <<P("String", v.s, <<>>, <<>>, <<>>)>>)
    \* (user wrappers registered with RegisterWrapperEncoder / ...WithMessageType)
    [] v.ty = "uRegWrap" -> Wrap(v.s, FALSE, <<>>, <<P("String", v.s, <<>>, <<>>, <<>>)>>)
    [] v.ty = "uRegWrapFull" -> Wrap(v.s, TRUE, <<>>, <<P("String", v.s, <<>>, <<>>, <<>>)>>)
    [] v.ty \in {"withHint", "withDetail"} -> Wrap(<<>>, FALSE, <<>>, <<P("String", v.s, <<>>, <<>>, <<>>)>>)
    [] v.ty = "withContext" -> Wrap(<<>>, FALSE, <<>>, <<P("Tags", <<>>, v.a, <<>>, <<>>)>>)
    [] v.ty = "withMark" -> Wrap(<<>>, FALSE, <<>>, <<P("Mark", <<>>, <<>>, <<>>, v.mk)>>)
    [] v.ty = "withSecondaryError" ->
         Wrap(<<>>, FALSE, <<>>, <<P("EncodedError", <<>>, <<>>, <<Enc(v.hid[1], reg, D)>>, <<>>)>>)
    [] v.ty \in {"withHTTPCode", "withGrpcCode"} -> Wrap(<<>>, FALSE, <<>>, <<P("Code", <<>>, v.a, <<>>, <<>>)>>)
    [] v.ty = "pkgWithStack" -> Wrap(<<>>, FALSE, <<>>, <<>>)
    [] v.ty \in {"osPathError", "osLinkError"} -> Wrap(v.s, FALSE, <<>>, <<P("Strings", <<>>, v.a, <<>>, <<>>)>>)
    [] v.ty = "osSyscallError" -> Wrap(v.s, FALSE, <<>>, <<>>)
    \* ---- wrappers without encoder; some have safe details their decoder reads
    [] v.ty = "withDomain" -> Generic(<<v.s>>)
    [] v.ty \in {"withTelemetry", "withIssueLink", "withSafeDetails"} -> Generic(v.a)
    [] OTHER -> Generic(<<>>)

---------------------------------------------------------------------------
RECURSIVE Dec(_, _, _)
RECURSIVE DecSeq(_, _, _)
DecSeq(ws, known, D) == IF ws = <<>> THEN <<>> ELSE <<Dec(ws[1], known, D)>> \o DecSeq(Tail(ws), known, D)

PayT(w) == IF w.pay = <<>> THEN "none" ELSE w.pay[1].t
Pad2(rp) == <<IF Len(rp) > 0 THEN rp[1] ELSE <<>>, IF Len(rp) > 1 THEN rp[2] ELSE <<>>>>

Dec(w, known, D) ==
  LET kidsV == DecSeq(w.kids, known, D)
      p == w.pay[1]
      OpaqueLeaf == IF w.kids = <<>>
                    THEN [V("opaqueLeaf", w.msg, <<>>, <<>>, <<>>) EXCEPT !.o = OOf(w)]
                    ELSE [V("opaqueLeafCauses", w.msg, <<>>, kidsV, <<>>) EXCEPT !.o = OOf(w)]
      OpaqueWrap == [V("opaqueWrapper", w.msg, <<>>, kidsV, <<>>) EXCEPT !.o = OOf(w)]
      Typed(v) == v
  IN
  IF w.k = "leaf" THEN
    IF ~Knows(known, w.fam)
    THEN (IF PayT(w) = "uProto" /\ "*" \in known
          THEN V("uProtoLeaf", p.s, <<>>, <<>>, <<>>)       \* payload is itself an error
          ELSE OpaqueLeaf)
    ELSE
    CASE w.fam = "leafError" -> IF PayT(w) = "String" THEN V("leafError", p.s, <<>>, <<>>, <<>>) ELSE OpaqueLeaf
      [] w.fam = "goErr" -> V("goErr", w.msg, <<>>, <<>>, <<>>)
      [] w.fam = "ctxDeadline" -> V("ctxDeadline", <<"L_ctxDeadline">>, <<>>, <<>>, <<>>)
      [] w.fam = "errno" -> IF PayT(w) = "Errno" THEN V("errno", w.msg, p.a, <<>>, <<>>) ELSE OpaqueLeaf
      [] w.fam = "unimplementedError" -> V("unimplementedError", w.msg, Pad2(w.rp), <<>>, <<>>)
      [] w.fam = "barrierErr" ->
           IF PayT(w) = "EncodedError" THEN V("barrierErr", w.msg, <<>>, <<>>, <<Dec(p.w[1], known, D)>>)
           ELSE OpaqueLeaf
      [] w.fam = "grpcStatus" -> IF PayT(w) = "Status" THEN V("grpcStatus", p.s, <<>>, <<>>, <<>>) ELSE OpaqueLeaf
      [] w.fam = "uRegLeaf" -> IF PayT(w) = "String" THEN V("uRegLeaf", p.s, <<>>, <<>>, <<>>) ELSE OpaqueLeaf
      [] w.fam = "uRegMulti" ->
           IF PayT(w) = "String" THEN V("uRegMulti", p.s, <<>>, kidsV, <<>>) ELSE OpaqueLeaf
      [] w.fam = "joinError" ->
           \* Join(causes...) drops nothing here: decoded causes are never nil
           IF kidsV = <<>> THEN OpaqueLeaf ELSE V("joinError", <<>>, <<>>, kidsV, <<>>)
      [] OTHER -> OpaqueLeaf
  ELSE
    IF ~Knows(known, w.fam) THEN OpaqueWrap
    ELSE
    CASE w.fam \in {"withPrefix", "withNewMessage", "withHint", "withDetail"} ->
           IF PayT(w) = "String" THEN V(w.fam, p.s, <<>>, kidsV, <<>>) ELSE OpaqueWrap
      [] w.fam \in {"uRegWrap", "uRegWrapFull"} ->
           IF PayT(w) = "String" THEN V(w.fam, p.s, <<>>, kidsV, <<>>) ELSE OpaqueWrap
      [] w.fam = "withSafeDetails" -> V(w.fam, <<>>, w.rp, kidsV, <<>>)
      [] w.fam = "withTelemetry" -> V(w.fam, <<>>, w.rp, kidsV, <<>>)
      [] w.fam = "withDomain" -> IF w.rp = <<>> THEN OpaqueWrap ELSE V(w.fam, w.rp[1], <<>>, kidsV, <<>>)
      [] w.fam = "withIssueLink" -> V(w.fam, <<>>, Pad2(w.rp), kidsV, <<>>)
      [] w.fam = "withContext" -> IF PayT(w) = "Tags" /\ p.a # <<>> THEN V(w.fam, <<>>, p.a, kidsV, <<>>) ELSE OpaqueWrap
      [] w.fam = "withAssertionFailure" -> V(w.fam, <<>>, <<>>, kidsV, <<>>)
      [] w.fam = "withMark" ->
           IF PayT(w) = "Mark" THEN [V(w.fam, <<>>, <<>>, kidsV, <<>>) EXCEPT !.mk = p.mk] ELSE OpaqueWrap
      [] w.fam = "withSecondaryError" ->
           IF PayT(w) = "EncodedError" THEN V(w.fam, <<>>, <<>>, kidsV, <<Dec(p.w[1], known, D)>>) ELSE OpaqueWrap
      [] w.fam \in {"withHTTPCode", "withGrpcCode"} ->
           IF PayT(w) = "Code" THEN V(w.fam, <<>>, p.a, kidsV, <<>>) ELSE OpaqueWrap
      [] w.fam = "pkgWithMessage" -> V(w.fam, w.msg, <<>>, kidsV, <<>>)
      [] w.fam \in {"osPathError", "osLinkError"} ->
           IF PayT(w) = "Strings" THEN V(w.fam, JoinWith(p.a, SP), p.a, kidsV, <<>>) ELSE OpaqueWrap
      [] w.fam = "osSyscallError" -> V(w.fam, w.msg, <<>>, kidsV, <<>>)
      [] OTHER -> OpaqueWrap

\* the projection of a wire message the harness records (conformance of Enc)
RECURSIVE WAbs(_)
RECURSIVE WAbsSeq(_)
WAbsSeq(ws) == IF ws = <<>> THEN <<>> ELSE <<WAbs(ws[1])>> \o WAbsSeq(Tail(ws))
WAbs(w) == [k |-> w.k, msg |-> IF w.fam = "barrierErr" THEN <<"?">> ELSE w.msg, fam |-> w.fam, tn |-> w.tn,
            ext |-> w.ext, full |-> w.full, pay |-> PayT(w), kids |-> WAbsSeq(w.kids)]

\* one hop: encode at the sender (registry reg), decode at a receiver that
\* knows `known`
Hop(v, known, reg, D) == Dec(Enc(v, reg, D), known, D)
=============================================================================
