------------------------------ MODULE ErrSystem ------------------------------
(***************************************************************************)
(* The error library as a state machine.  The state is a small set of       *)
(* slots holding abstract error values, the network of in-flight wire        *)
(* messages, and the process-global rename registry.  Every public call is  *)
(* one step [op, dst, src, s, a, parts, n, known]; Apply gives its effect.  *)
(* Generation (MC*.tla) enumerates steps; validation (Trace.tla) replays    *)
(* the steps the harness executed on the real code.                         *)
(***************************************************************************)
EXTENDS Format, Integers, Stacks

CONSTANTS NSlots,      \* number of slots
          Deviations   \* named deviations of the code from the ideal design (DESIGN 4.2)

VARIABLES slots,       \* [1..NSlots -> value]
          net,         \* sequence of wire messages in flight
          reg,         \* backward rename registry of the (single) process
          taint,       \* [1..NSlots -> [u, s, h]]: words that entered the slot's value through
                       \* unsafe / safe channels; h: some argument was not regular text
          procs,       \* processes built from different versions of the code (C17):
                       \* [migs: proc -> rename registry, tys: proc -> linked types, own: slot -> proc]
          gor          \* goroutines observing a shared value (C18): [g -> [op, slot]] ("" = idle)

sysvars == <<slots, net, reg, taint, procs, gor>>

Step(op, dst, src, s, a, parts, n, known) ==
  [op |-> op, dst |-> dst, src |-> src, s |-> s, a |-> a, parts |-> parts, n |-> n, known |-> known]

Part(k, s, r) == [k |-> k, s |-> s, r |-> r]

---------------------------------------------------------------------------
(* Constructors.                                                           *)

WStack(e) == IF IsNil(e) THEN Nil ELSE V("withStack", <<>>, <<>>, <<e>>, <<>>)
W1(ty, s, a, e) == IF IsNil(e) THEN Nil ELSE V(ty, s, a, <<e>>, <<>>)
Secondary(e, x) == IF IsNil(e) \/ IsNil(x) THEN e ELSE V("withSecondaryError", <<>>, <<>>, <<e>>, <<x>>)
Barrier(e, msg) == IF IsNil(e) THEN Nil ELSE V("barrierErr", msg, <<>>, <<>>, <<e>>)

RECURSIVE PartsText(_, _)
PartsText(parts, sl) ==
  IF parts = <<>> THEN <<>>
  ELSE LET p == parts[1] IN
       (IF p.k \in {"err", "w"} THEN Text(sl[p.r]) ELSE p.s) \o PartsText(Tail(parts), sl)

\* the error arguments, in order
RECURSIVE ErrRefs(_)
ErrRefs(parts) ==
  IF parts = <<>> THEN <<>>
  ELSE (IF parts[1].k \in {"err", "w"} THEN <<parts[1].r>> ELSE <<>>) \o ErrRefs(Tail(parts))
WRef(parts) == LET ws == {i \in 1..Len(parts) : parts[i].k = "w"} IN
               IF ws = {} THEN 0 ELSE parts[CHOOSE i \in ws : \A j \in ws : i <= j].r

RECURSIVE AddSecondaries(_, _, _)
AddSecondaries(e, refs, sl) ==
  IF refs = <<>> THEN e ELSE AddSecondaries(Secondary(e, sl[refs[1]]), Tail(refs), sl)

\* errutil.NewWithDepthf
NewfV(parts, sl) ==
  LET txt == PartsText(parts, sl)
      w == WRef(parts)
      base == IF w = 0 THEN V("leafError", txt, <<>>, <<>>, <<>>)
              ELSE V("withNewMessage", txt, <<>>, <<sl[w]>>, <<>>)
  IN WStack(AddSecondaries(base, ErrRefs(parts), sl))

\* an empty format string without arguments
NoFormat(parts) == \A i \in 1..Len(parts) : parts[i].k = "lit" /\ parts[i].s = <<>>

\* errutil.WrapWithDepthf
WrapfV(e, parts, sl) ==
  IF IsNil(e) THEN Nil
  ELSE LET p == IF NoFormat(parts) THEN e ELSE W1("withPrefix", PartsText(parts, sl), <<>>, e)
       IN WStack(AddSecondaries(p, ErrRefs(parts), sl))

\* context tag values as GetContextTags shows them (strings): a value-less tag
\* reads "", a value marked safe reads as itself, an integer as its digits
TagStr(x) == IF x = <<"NILV">> THEN <<>> ELSE IF x # <<>> /\ x[1] = "SAFEV" THEN Tail(x) ELSE x
TagStrs(a) == [i \in 1..Len(a) |-> IF i % 2 = 0 THEN TagStr(a[i]) ELSE a[i]]

\* domains.EnsureNotInDomain(err, constructor, forbidden...): st.a lists the forbidden
\* domains (<<"NODOM">> stands for NoDomain), st.s names the domain the constructor
\* (HandledInDomain) moves the error to
ForbiddenDom(x) == IF x = <<"NODOM">> THEN <<"L_NoDomain">> ELSE NamedDomain(x)
EnsureTriggers(st, e) == ~IsNil(e) /\ \E i \in 1..Len(st.a) : DomainOf(e) = ForbiddenDom(st.a[i])

RECURSIVE DropNils(_)
DropNils(vs) == IF vs = <<>> THEN <<>>
                ELSE (IF IsNil(vs[1]) THEN <<>> ELSE <<vs[1]>>) \o DropNils(Tail(vs))
SlotVals(src, sl) == [i \in 1..Len(src) |-> sl[src[i]]]

JoinV(vs) == LET k == DropNils(vs) IN IF k = <<>> THEN Nil ELSE V("joinError", <<>>, <<>>, k, <<>>)
GoJoinV(vs) == LET k == DropNils(vs) IN IF k = <<>> THEN Nil ELSE V("goJoin", <<>>, <<>>, k, <<>>)

\* The value a constructor step produces, given the current slots.
\* e = first source (the error being wrapped), x = second source.
Build(st, sl, rg) ==
  LET e == IF Len(st.src) >= 1 THEN sl[st.src[1]] ELSE Nil
      x == IF Len(st.src) >= 2 THEN sl[st.src[2]] ELSE Nil
  IN
  CASE st.op = "GoNew"      -> V("goErr", st.s, <<>>, <<>>, <<>>)
    [] st.op = "Sentinel"   -> V("goErr", st.s, st.a, <<>>, <<>>)      \* a = identity tag
    [] st.op = "CtxDeadline" -> V("ctxDeadline", <<"L_ctxDeadline">>, <<>>, <<>>, <<>>)
    [] st.op = "Errno"      -> V("errno", st.s, st.a, <<>>, <<>>)
    [] st.op = "New"        -> WStack(V("leafError", st.s, <<>>, <<>>, <<>>))
    [] st.op = "Newf"       -> NewfV(st.parts, sl)
    [] st.op = "PkgNew"     -> V("pkgFundamental", st.s, <<>>, <<>>, <<>>)
    [] st.op = "Unimplemented" -> V("unimplementedError", st.s, st.a, <<>>, <<>>)
    [] st.op = "AssertionFailedf" -> W1("withAssertionFailure", <<>>, <<>>, NewfV(st.parts, sl))
    [] st.op = "ULeaf"      -> V(st.a[1][1], st.s, Tail(st.a), <<>>, <<>>)
    \* ---- wrappers
    [] st.op = "Wrap"       -> WStack(IF st.s = <<>> THEN e ELSE W1("withPrefix", st.s, <<>>, e))
    [] st.op = "Wrapf"      -> WrapfV(e, st.parts, sl)
    [] st.op = "WithMessage" -> W1("withPrefix", st.s, <<>>, e)
    \* the f-variants: the text is the formatted string (no stack, no secondary errors)
    [] st.op = "WithMessagef" -> W1("withPrefix", PartsText(st.parts, sl), <<>>, e)
    [] st.op = "WithHintf" -> W1("withHint", PartsText(st.parts, sl), <<>>, e)
    [] st.op = "WithDetailf" -> W1("withDetail", PartsText(st.parts, sl), <<>>, e)
    [] st.op = "UnimplementedErrorf" -> V("unimplementedError", PartsText(st.parts, sl), st.a, <<>>, <<>>)
    [] st.op = "WithStack"  -> WStack(e)
    [] st.op = "WithHint"   -> W1("withHint", st.s, <<>>, e)
    [] st.op = "WithDetail" -> W1("withDetail", st.s, <<>>, e)
    [] st.op = "WithSafeDetails" -> IF NoFormat(st.parts) THEN e ELSE W1("withSafeDetails", <<>>, <<>>, e)
    [] st.op = "WithTelemetry" -> W1("withTelemetry", <<>>, st.a, e)
    [] st.op = "WithDomain" -> W1("withDomain", NamedDomain(st.s), <<>>, e)
    [] st.op = "WithIssueLink" -> W1("withIssueLink", <<>>, st.a, e)
    [] st.op = "WithContextTags" -> IF st.a = <<>> THEN e
                                    ELSE IF st.a = <<<<"EMPTYBUF">>>> THEN W1("withContext", <<>>, <<>>, e)
                                    ELSE W1("withContext", <<>>, TagStrs(st.a), e)
    [] st.op = "WithAssertionFailure" -> W1("withAssertionFailure", <<>>, <<>>, e)
    [] st.op = "Mark"       -> MarkV(e, x, rg)
    [] st.op = "WithSecondaryError" -> Secondary(e, x)
    [] st.op = "CombineErrors" -> IF IsNil(e) THEN x ELSE Secondary(e, x)
    [] st.op \in {"Handled", "Opaque"} -> Barrier(e, Text(e))
    [] st.op = "HandledWithMessage" -> Barrier(e, st.s)
    [] st.op = "HandledInDomain" -> W1("withDomain", NamedDomain(st.s), <<>>, Barrier(e, Text(e)))
    [] st.op = "HandledInDomainWithMessage" -> W1("withDomain", NamedDomain(st.a[1]), <<>>, Barrier(e, st.s))
    [] st.op = "EnsureNotInDomain" ->
         IF EnsureTriggers(st, e) THEN W1("withDomain", NamedDomain(st.s), <<>>, Barrier(e, Text(e))) ELSE e
    [] st.op = "HandleAsAssertionFailure" ->
         W1("withAssertionFailure", <<>>, <<>>, WStack(Barrier(e, Text(e))))
    [] st.op = "NewAssertionErrorWithWrappedErrf" ->
         W1("withAssertionFailure", <<>>, <<>>, WrapfV(Barrier(e, Text(e)), st.parts, sl))
    [] st.op = "WrapWithHTTPCode" -> W1("withHTTPCode", <<>>, st.a, e)
    [] st.op = "WrapWithGrpcCode" -> W1("withGrpcCode", <<>>, st.a, e)
    \* ---- foreign wrappers (never applied to nil by the generator)
    [] st.op = "GoWrap"     -> V("goWrapError", st.s \o Text(e) \o st.a[1], <<>>, <<e>>, <<>>)
    [] st.op = "PkgWithMessage" -> W1("pkgWithMessage", st.s, <<>>, e)
    [] st.op = "PkgWithStack" -> W1("pkgWithStack", <<>>, <<>>, e)
    [] st.op = "PkgWrap"    -> W1("pkgWithStack", <<>>, <<>>, W1("pkgWithMessage", st.s, <<>>, e))
    [] st.op = "OsPathError" -> V("osPathError", JoinWith(st.a, SP), st.a, <<e>>, <<>>)
    [] st.op = "OsLinkError" -> V("osLinkError", JoinWith(st.a, SP), st.a, <<e>>, <<>>)
    [] st.op = "OsSyscallError" -> V("osSyscallError", st.s, <<>>, <<e>>, <<>>)
    [] st.op = "UWrap"      -> V(st.a[1][1], st.s, <<>>, <<e>>, <<>>)
    \* ---- multi-cause
    [] st.op = "Join"       -> WStack(JoinV(SlotVals(st.src, sl)))
    [] st.op = "JoinPkg"    -> JoinV(SlotVals(st.src, sl))             \* join.Join, no stack
    [] st.op = "GoJoin"     -> GoJoinV(SlotVals(st.src, sl))
    [] st.op = "UMulti"     -> IF st.a = <<<<"REG">>>> THEN V("uRegMulti", st.s, <<>>, SlotVals(st.src, sl), <<>>)
                               ELSE IF st.a = <<<<"CAUSE">>>> THEN V("uMultiCause", st.s, <<>>, SlotVals(st.src, sl), <<>>)
                               ELSE V(IF st.a = <<>> THEN "uMulti" ELSE "uMultiIs", st.s, st.a, SlotVals(st.src, sl), <<>>)
    [] st.op = "GoWrap2"    -> V("goWrapErrors", Text(e) \o st.s \o Text(x), <<>>, <<e, x>>, <<>>)
    [] st.op = "GrpcStatus" -> V("grpcStatus", <<"L_rpcNotFound">> \o st.s, <<>>, <<>>, <<>>)
    \* ---- transfer
    \* through the gRPC interceptors: the handler's error reaches the caller as if
    \* transferred directly (status errors and nil pass through)
    [] st.op = "Grpc"       -> IF IsNil(e) THEN Nil ELSE Hop(e, {"*"}, rg, Deviations)
    [] st.op = "Hop"        -> IF IsNil(e) THEN Nil ELSE Hop(e, SeqToSet(st.known), rg, Deviations)
    \* ---- decoding of faulty / arbitrary wire messages (C05): the result is some
    \* non-nil error; its contents are not predicted
    [] st.op \in {"DecodeFault", "DecodeFuzz"} -> V("decoded", <<>>, st.a, <<>>, <<>>)
    \* ---- a stack-capturing / domain-computing API function called through the
    \* helper frames with depth st.n (C16); the value itself is not predicted
    [] st.op = "StackCall" -> V("decoded", <<>>, <<>>, <<>>, <<>>)
    [] st.op = "Copy"       -> e
    [] st.op = "Clear"      -> Nil

---------------------------------------------------------------------------
(* Taint: through which channel each word entered (C03, C12).  Unsafe:       *)
(* format arguments not wrapped in Safe(), messages of non-library errors,   *)
(* hints, details, paths, tag values, overriding barrier messages, the       *)
(* message of a Mark reference.  Safe: constant messages and format strings, *)
(* Safe() arguments, telemetry keys, domains, issue links, tag keys.         *)

\* u: entered through an unsafe channel; s: entered through a safe channel (a word in
\* s is not a leak, C03); r: safe information that must be retained in reports (C12)
\* dv: (trace validation only) the recorded value has diverged from the ideal model
\* through a reported transfer defect; predictions for it are suspended
NoTaint == [u |-> {}, s |-> {}, r |-> {}, h |-> FALSE, mk |-> FALSE, dv |-> FALSE]
WordsIn(ts) == WordsOf(ts)
WordsInAll(a) == UNION {WordsIn(a[i]) : i \in 1..Len(a)}
Odd(a) == {i \in 1..Len(a) : i % 2 = 1}
Even(a) == {i \in 1..Len(a) : i % 2 = 0}

RECURSIVE PartsU(_)
PartsU(ps) == IF ps = <<>> THEN {} ELSE (IF ps[1].k = "arg" THEN WordsIn(ps[1].s) ELSE {}) \cup PartsU(Tail(ps))
RECURSIVE PartsS(_)
PartsS(ps) == IF ps = <<>> THEN {}
              ELSE (IF ps[1].k \in {"lit", "safe", "xsafe"} THEN WordsIn(ps[1].s) ELSE {}) \cup PartsS(Tail(ps))
RECURSIVE PartsAllStr(_)
PartsAllStr(ps) == IF ps = <<>> THEN <<>>
                   ELSE (IF ps[1].k \in {"lit", "safe", "arg", "xsafe"} THEN <<ps[1].s>> ELSE <<>>) \o PartsAllStr(Tail(ps))

SUnsafeOps == {"GoNew", "PkgNew", "ULeaf", "GrpcStatus", "WithHint", "WithDetail", "HandledWithMessage",
               "HandledInDomainWithMessage", "PkgWithMessage", "PkgWrap", "UWrap", "GoWrap", "GoWrap2", "UMulti",
               "Unimplemented"}
SSafeOps   == {"New", "Wrap", "WithMessage", "WithDomain", "HandledInDomain", "OsSyscallError"}

\* words the step itself introduces
\* (the ErrorKeyMarker of a type is safe by declaration: it travels in the type mark)
KeyWrap(st) == st.op = "UWrap" /\ st.a[1] = <<"uKeyWrap">>
\* (hints, details and the message of an unimplemented error are unsafe as a whole, also
\* when they were formatted: constant parts and Safe() arguments included)
AllUnsafeFmtOps == {"WithHintf", "WithDetailf", "UnimplementedErrorf"}
StepU(st, sl) ==
  (IF st.op \in SUnsafeOps /\ ~KeyWrap(st) THEN WordsIn(st.s) ELSE {})
  \cup PartsU(st.parts)
  \cup (IF st.op \in AllUnsafeFmtOps THEN PartsS(st.parts) ELSE {})
  \cup (IF st.op = "UMulti" /\ st.a \notin {<<<<"REG">>>>, <<<<"CAUSE">>>>} THEN WordsInAll(st.a) ELSE {})
  \cup (IF st.op = "GoWrap" \/ (st.op = "ULeaf" /\ st.a[1] \notin {<<"uSafeDetLeaf">>, <<"uKeyLeaf">>})
        THEN WordsInAll(st.a) ELSE {})
  \cup (IF st.op = "WithContextTags"
        THEN UNION {WordsIn(st.a[i]) : i \in {j \in Even(st.a) : st.a[j] = <<>> \/ st.a[j][1] # "SAFEV"}} ELSE {})
  \cup (IF st.op \in {"OsPathError", "OsLinkError"} THEN UNION {WordsIn(st.a[i]) : i \in 2..Len(st.a)} ELSE {})
  \cup (IF st.op = "Mark" /\ Len(st.src) = 2 /\ ~IsNil(sl[st.src[1]]) /\ ~IsNil(sl[st.src[2]])
        THEN WordsIn(Text(sl[st.src[2]])) ELSE {})
StepS(st) ==
  (IF st.op \in SSafeOps \/ KeyWrap(st) THEN WordsIn(st.s) ELSE {})
  \cup (IF st.op \in AllUnsafeFmtOps THEN {} ELSE PartsS(st.parts))
  \cup (IF st.op \in {"WithTelemetry", "WithIssueLink", "Unimplemented", "UnimplementedErrorf", "HandledInDomainWithMessage"}
        THEN WordsInAll(st.a) ELSE {})
  \cup (IF st.op = "WithContextTags"
        THEN UNION {WordsIn(st.a[i]) : i \in Odd(st.a) \cup {j \in Even(st.a) : st.a[j] # <<>> /\ st.a[j][1] = "SAFEV"}}
        ELSE {})
  \* (what a type returns from SafeDetails() is safe by its own declaration)
  \cup (IF st.op = "ULeaf" /\ st.a[1] \in {<<"uSafeDetLeaf">>, <<"uKeyLeaf">>} THEN WordsInAll(Tail(st.a)) ELSE {})
  \cup (IF st.op \in {"OsPathError", "OsLinkError"} /\ Len(st.a) >= 1 THEN WordsIn(st.a[1]) ELSE {})
\* some string argument of the step is not regular text (C01, C09, C10 quantify over regular text)
\* (a multi-cause node that also has Cause() is a wrapper to the library's single-cause
\* walk and a multi-cause node to its branch walk: its value is not predicted, only the
\* relations with the standard library are judged)
StepH(st) ==
  (st.op = "UMulti" /\ st.a = <<<<"CAUSE">>>>) \/
  LET strs == (IF st.s = <<>> THEN <<>> ELSE <<st.s>>) \o FilterNonEmpty(st.a) \o FilterNonEmpty(PartsAllStr(st.parts))
  IN \E i \in 1..Len(strs) : ~Regular(strs[i]) /\ strs[i] \notin {<<SP>>, <<SEP>>}

\* some string argument contains redaction marker characters
StepMk(st) ==
  LET strs == <<st.s>> \o st.a \o PartsAllStr(st.parts)
  IN \E i \in 1..Len(strs) : \E j \in 1..Len(strs[i]) : strs[i][j] \in {"MO", "MC", "RM"}

\* slots whose values flow into the result
RECURSIVE PartRefs(_)
PartRefs(ps) == IF ps = <<>> THEN {} ELSE (IF ps[1].k \in {"err", "w"} THEN {ps[1].r} ELSE {}) \cup PartRefs(Tail(ps))
\* (of a Mark reference only the message is kept, as an unsafe string)
\* (error arguments become secondary errors in Newf / Wrapf and friends only)
Sources(st) == (IF st.op = "Mark" THEN {st.src[1]} ELSE SeqToSet(st.src))
               \cup (IF st.op = "WithSafeDetails" THEN {} ELSE PartRefs(st.parts))

\* safe words that reach the result without having to be retained by it: the
\* domains in the type marks of a Mark reference (printed as safe by withMark);
\* the safe parts of an error formatted into a safe-details string
ExtraS(st, sl, tn) ==
  \* (the mark of the reference: its own chain's type marks, or - when the reference is
  \* itself a marked error - the type marks it carries)
  (IF st.op = "Mark" /\ Len(st.src) = 2 /\ ~IsNil(sl[st.src[2]])
   THEN LET ts == MarkOf(sl[st.src[2]], reg).types IN UNION {WordsIn(ts[i].x) : i \in 1..Len(ts)} ELSE {})
  \cup (IF st.op = "WithSafeDetails" THEN UNION {tn[i].s : i \in PartRefs(st.parts)} ELSE {})

\* (EnsureNotInDomain is HandledInDomain when it triggers, the identity otherwise)
RECURSIVE TaintOf(_, _, _, _)
TaintOf(st, sl, tn, res) ==
  IF st.op = "EnsureNotInDomain"
  THEN TaintOf([st EXCEPT !.op = IF EnsureTriggers(st, sl[st.src[1]]) THEN "HandledInDomain" ELSE "Copy", !.a = <<>>,
                          !.s = IF EnsureTriggers(st, sl[st.src[1]]) THEN st.s ELSE <<>>],
               sl, tn, res)
  ELSE
  IF IsNil(res) \/ st.op \in {"Clear", "DecodeFault", "DecodeFuzz", "StackCall"} THEN NoTaint
  ELSE LET src == Sources(st) IN
       [u |-> StepU(st, sl) \cup UNION {tn[i].u : i \in src},
        s |-> StepS(st) \cup ExtraS(st, sl, tn) \cup UNION {tn[i].s : i \in src},
        \* (C12 does not list a user type's key marker or own SafeDetails() strings among
        \* what reports must retain: they are safe where they appear, nothing more)
        \* (of context tags C12 lists the keys; a value marked safe is safe where it appears)
        r |-> (IF KeyWrap(st) \/ (st.op = "ULeaf" /\ st.a[1] \in {<<"uSafeDetLeaf">>, <<"uKeyLeaf">>}) THEN {}
               ELSE IF st.op = "WithContextTags" THEN UNION {WordsIn(st.a[i]) : i \in Odd(st.a)}
               ELSE StepS(st))
              \cup UNION {tn[i].r : i \in src},
        h |-> StepH(st) \/ \E i \in src : tn[i].h,
        mk |-> StepMk(st) \/ \E i \in src : tn[i].mk,
        dv |-> \E i \in src : tn[i].dv]

ConstructorOps ==
  {"GoNew", "Sentinel", "CtxDeadline", "Errno", "New", "Newf", "PkgNew", "Unimplemented",
   "AssertionFailedf", "ULeaf", "Wrap", "Wrapf", "WithMessage", "WithStack", "WithHint",
   "WithMessagef", "WithHintf", "WithDetailf", "UnimplementedErrorf",
   "WithDetail", "WithSafeDetails", "WithTelemetry", "WithDomain", "WithIssueLink",
   "WithContextTags", "WithAssertionFailure", "Mark", "WithSecondaryError", "CombineErrors",
   "Handled", "Opaque", "HandledWithMessage", "HandledInDomain", "HandledInDomainWithMessage",
   "EnsureNotInDomain", "HandleAsAssertionFailure", "NewAssertionErrorWithWrappedErrf", "WrapWithHTTPCode",
   "WrapWithGrpcCode", "GoWrap", "PkgWithMessage", "PkgWithStack", "PkgWrap", "OsPathError",
   "OsLinkError", "OsSyscallError", "UWrap", "Join", "JoinPkg", "GoJoin", "GoWrap2", "UMulti", "Hop",
   "Copy", "Clear", "DecodeFault", "DecodeFuzz", "StackCall", "GrpcStatus", "Grpc"}

\* A step is well-formed for the current state (enabling condition).
Enabled(st, sl) ==
  /\ st.op \in ConstructorOps
  /\ st.dst \in 1..NSlots
  /\ \A i \in 1..Len(st.src) : st.src[i] \in 1..NSlots
  /\ \A i \in 1..Len(st.parts) : st.parts[i].k \in {"err", "w"} => st.parts[i].r \in 1..NSlots
  /\ st.op \in {"GoWrap", "OsPathError", "OsLinkError", "OsSyscallError", "UWrap", "GoWrap2", "UMulti"}
        => \A i \in 1..Len(st.src) : ~IsNil(sl[st.src[i]])

---------------------------------------------------------------------------
(* Type renames across code versions (errbase/migrations.go, C17).          *)
(* A process is a build of the program: it links some Go types of a renamed *)
(* lineage (uRenA was renamed uRenB, ...) and has registered renames.       *)

NProcs == 3
NoProcs == [migs |-> [p \in 1..NProcs |-> <<>>], tys |-> [p \in 1..NProcs |-> {}],
            own |-> [i \in 1..NSlots |-> 0]]

\* errbase.RegisterTypeMigration(prev, new): result [panic, tbl]
RegisterMigration(tbl, prev, new, D) ==
  IF new \in DOMAIN tbl THEN [panic |-> TRUE, tbl |-> tbl]
  ELSE LET \* the original name: prev may itself be a renamed type
           root == IF "MigrationNoPrevLookup" \notin D /\ prev \in DOMAIN tbl THEN tbl[prev] ELSE prev
           t1 == [k \in DOMAIN tbl \cup {new} |-> IF k = new THEN root ELSE tbl[k]]
       IN [panic |-> FALSE,
           \* renames registered earlier that pointed to `new` are forwarded
           tbl |-> [k \in DOMAIN t1 |-> IF t1[k] = new THEN root ELSE t1[k]]]

FamP(ty, tbl) == IF ty \in DOMAIN tbl THEN tbl[ty] ELSE ty

\* transfer of a lineage leaf from process p to process q
XferV(v, p, q, pr) ==
  LET fam == IF v.ty = "opaqueLeaf" THEN v.o.fam ELSE FamP(v.ty, pr.migs[p])
      local == {t \in pr.tys[q] : FamP(t, pr.migs[q]) = fam}
  IN IF local # {} THEN V(CHOOSE t \in local : TRUE, v.s, <<>>, <<>>, <<>>)
     ELSE [V("opaqueLeaf", v.s, <<>>, <<>>, <<>>) EXCEPT !.o = [NoO EXCEPT !.fam = fam, !.tn = fam, !.msg = v.s]]

\* the family name a value shows in process p (errbase.GetTypeKey)
FamIn(v, p, pr) == IF v.ty = "opaqueLeaf" THEN v.o.fam ELSE FamP(v.ty, pr.migs[p])
\* Is between two lineage leaves held by the same process: same family, same message
IsIn(e, r, p, pr) == ~IsNil(e) /\ ~IsNil(r) /\ FamIn(e, p, pr) = FamIn(r, p, pr) /\ e.s = r.s

MigOps == {"ProcInit", "RegMig", "MkLocal", "Xfer", "Probe"}

\* Effect of a migration-family step on (slots, procs); st.n is the process
\* (Xfer: 10 * from + to).  ok = enabling condition; panic = RegMig rejected.
MigApply(st, sl, pr) ==
  CASE st.op = "ProcInit" ->
         [sl |-> sl, pr |-> [pr EXCEPT !.tys[st.n] = SeqToSet(st.s), !.migs[st.n] = <<>>], ok |-> TRUE, panic |-> FALSE]
    [] st.op = "RegMig" ->
         LET r == RegisterMigration(pr.migs[st.n], st.s[1], st.s[2], Deviations) IN
         [sl |-> sl, pr |-> [pr EXCEPT !.migs[st.n] = r.tbl], ok |-> TRUE, panic |-> r.panic]
    [] st.op = "MkLocal" ->
         [sl |-> [sl EXCEPT ![st.dst] = V(st.a[1][1], st.s, <<>>, <<>>, <<>>)],
          pr |-> [pr EXCEPT !.own[st.dst] = st.n], ok |-> st.a[1][1] \in pr.tys[st.n], panic |-> FALSE]
    [] st.op = "Xfer" ->
         LET p == st.n \div 10  q == st.n % 10 IN
         [sl |-> [sl EXCEPT ![st.dst] = XferV(sl[st.src[1]], p, q, pr)],
          pr |-> [pr EXCEPT !.own[st.dst] = q],
          ok |-> pr.own[st.src[1]] = p /\ ~IsNil(sl[st.src[1]]), panic |-> FALSE]
    [] st.op = "Probe" -> [sl |-> sl, pr |-> pr, ok |-> ~IsNil(sl[st.dst]), panic |-> FALSE]

DoMig(st) ==
  LET r == MigApply(st, slots, procs) IN
  /\ st.op \in MigOps /\ r.ok
  /\ slots' = r.sl /\ procs' = r.pr
  /\ UNCHANGED <<net, reg, taint, gor>>

\* what the harness observes of slot i in its owner process
MigObs(i, sl, pr) ==
  LET p == pr.own[i] v == sl[i] IN
  [ty |-> v.ty, fam |-> FamIn(v, p, pr),
   is |-> [j \in 1..NSlots |-> IF pr.own[j] = p /\ ~IsNil(sl[j]) THEN B2S(IsIn(v, sl[j], p, pr)) ELSE "-"]]

---------------------------------------------------------------------------
(* Concurrent read-only use of a shared value (C18).  A goroutine begins an  *)
(* observer operation on a slot and later ends it; between the two it        *)
(* overlaps with whatever the other goroutines do.  Observers never change   *)
(* the value, and an operation's result is a function of the value alone.    *)

NGor == 3
Idle == [g \in 1..NGor |-> [op |-> "", slot |-> 0]]
ObserverOps == {"error", "fmtV", "fmtPlusV", "redactV", "redactPlusV", "encode", "isSelf", "isOther", "as",
                "safeDetails", "hints", "report"}
ConcOps == {"CBegin", "CEnd", "CStorm"}

\* st.n: goroutine (CStorm: number of goroutines); st.s[1]: operation; st.src[1]: shared slot
ConcApply(st, sl, gr) ==
  CASE st.op = "CBegin" ->
         [gr |-> [gr EXCEPT ![st.n] = [op |-> st.s[1], slot |-> st.src[1]]],
          ok |-> st.n \in 1..NGor /\ gr[st.n].op = "" /\ st.s[1] \in ObserverOps /\ ~IsNil(sl[st.src[1]])]
    [] st.op = "CEnd" ->
         [gr |-> [gr EXCEPT ![st.n] = [op |-> "", slot |-> 0]], ok |-> st.n \in 1..NGor /\ gr[st.n].op # ""]
    [] st.op = "CStorm" ->
         [gr |-> gr, ok |-> gr = Idle /\ ~IsNil(sl[st.src[1]])]

DoConc(st) ==
  LET r == ConcApply(st, slots, gor) IN
  /\ st.op \in ConcOps /\ r.ok
  /\ gor' = r.gr
  /\ UNCHANGED <<slots, net, reg, taint, procs>>      \* observers never mutate

Init ==
  /\ slots = [i \in 1..NSlots |-> Nil]
  /\ net = <<>>
  /\ reg = <<>>
  /\ taint = [i \in 1..NSlots |-> NoTaint]
  /\ procs = NoProcs
  /\ gor = Idle

\* the one action schema: perform step st
Do(st) ==
  /\ Enabled(st, slots)
  /\ slots' = [slots EXCEPT ![st.dst] = Build(st, slots, reg)]
  /\ taint' = [taint EXCEPT ![st.dst] = TaintOf(st, slots, taint, Build(st, slots, reg))]
  /\ UNCHANGED <<net, reg, procs, gor>>

---------------------------------------------------------------------------
(* The projection Obs(v): what the harness records from the real value.    *)

RECURSIVE TreeOf(_, _)
RECURSIVE TreesOf(_, _)
TreesOf(vs, rg) == IF vs = <<>> THEN <<>> ELSE <<TreeOf(vs[1], rg)>> \o TreesOf(Tail(vs), rg)
TreeOf(v, rg) ==
  [ty |-> v.ty, fam |-> Fam(v, rg), ext |-> Ext(v), text |-> Text(v),
   k |-> IF IsWrap(v) THEN "w" ELSE IF IsMulti(v) THEN "m" ELSE "l",
   kids |-> TreesOf(v.kids, rg), hid |-> TreesOf(v.hid, rg)]

\* Is(e, r) for every reference r: all nodes (visible and hidden) of all slots
RefPool(sl) == Concat([i \in 1..NSlots |-> AllNodes(sl[i])])
IsVec(e, sl, rg, D) == LET rp == RefPool(sl) IN [j \in 1..Len(rp) |-> IsImpl(e, rp[j], rg, D)]
IsSpecVec(e, sl, rg) == LET rp == RefPool(sl) IN [j \in 1..Len(rp) |-> B2S(IsSpec(e, rp[j], rg))]
=============================================================================
