------------------------------ MODULE MC_Multi -------------------------------
(* Family Multi: multi-cause nodes at any depth, nested, wrapped, with        *)
(* wrapped chains as branches, through knowing and unknowing hops.           *)
(* Serves C13.                                                              *)
EXTENDS MCGen
OpsV == {"GoNew", "Sentinel", "New", "Wrap", "WithStack", "WithHint", "WithDomain", "Handled", "Mark",
         "GoWrap", "UWrap", "Join", "JoinPkg", "GoJoin", "GoWrap2", "Hop", "HopU"}
\* restricted instance: nested multi-cause nodes with several layers of the same kind
\* in different branches (As must find the first one in depth-first order)
OpsNest == {"GoNew", "Errno", "WithHint", "Wrap", "Join", "JoinPkg", "GoJoin", "GoWrap2"}
ShapesOneW == {<<"w1">>}
ShapesV == {<<"w1">>, <<"w2", "NL", "w1">>}
Shapes2V == {<<"w2">>}
=============================================================================
