----------------------------- MODULE MC_Compose ------------------------------
EXTENDS MCGen
OpsV == {"GoNew", "New", "Newf", "Sentinel", "Wrap", "WithMessage", "WithHint", "WithDetail",
         "WithStack", "Handled", "HandledWithMessage", "WithSecondaryError", "Join", "GoWrap",
         "WithDomain", "WithIssueLink", "Unimplemented", "WithAssertionFailure", "Mark",
         "PkgWithMessage", "Hop"}
ShapesV == {<<"w1">>, <<"w1", "SEP", "w2">>}
Shapes2V == {<<"w2">>}
=============================================================================
