----------------------------- MODULE MC_Compose ------------------------------
(* Family Compose (DESIGN 4.3): every constructor of the catalogue, no      *)
(* unknowing processes.  Serves C10, C13, C19, C07, C08, C01, C02, C11.     *)
EXTENDS MCGen
OpsV == {"OKCode", "Copy", "GoNew", "Sentinel", "CtxDeadline", "Errno", "New", "Newf", "NewfW", "PkgNew", "Unimplemented",
         "AssertionFailedf", "ULeaf", "Wrap", "Wrapf", "WithMessage", "WithMessagef", "WithHintf", "WithDetailf", "UnimplementedErrorf",  "WithStack", "WithHint",
         "WithDetail", "WithSafeDetails", "WithTelemetry", "WithDomain", "WithIssueLink",
         "WithContextTags", "WithAssertionFailure", "Mark", "WithSecondaryError", "CombineErrors",
         "Handled", "Opaque", "HandledWithMessage", "HandledInDomain", "EnsureNotInDomain", "HandledInDomainWithMessage",
         "HandleAsAssertionFailure", "NewAssertionErrorWithWrappedErrf", "WrapWithHTTPCode",
         "WrapWithGrpcCode", "GoWrap", "PkgWithMessage", "PkgWithStack", "PkgWrap", "OsPathError",
         "OsLinkError", "OsSyscallError", "UWrap", "Join", "JoinPkg", "GoJoin", "GoWrap2", "Hop"}
\* restricted instance: %w formats below message wrappers, joins and barriers
OpsW == {"GoNew", "New", "NewfW", "Wrap", "WithMessage", "Handled", "Join", "GoWrap", "WithHint"}
\* restricted instance: stacks captured locally, decoded, and captured again around them
OpsSrc == {"GoNew", "New", "PkgNew", "Wrap", "WithStack", "PkgWithStack", "WithHint", "Hop"}
ShapesV == {<<"w1">>, <<"w1", "SEP", "w2">>, <<"w2", "PCT">>}
ShapesOne == {<<"w1">>}
Shapes2V == {<<"w2">>}
=============================================================================
