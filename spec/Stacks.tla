------------------------------- MODULE Stacks --------------------------------
(***************************************************************************)
(* Attribution of captured call stacks and package domains (C16).           *)
(* Every stack-capturing or domain-computing function of the public API     *)
(* forwards, through a chain of functions, to withstack.WithStackDepth      *)
(* (which captures runtime.Callers(3 + D)) or to domains.PackageDomainAtDepth*)
(* (which reads runtime.Caller(1 + D)); each forwarding function adds to    *)
(* the depth it passes down.  The table transcribes the chains and the      *)
(* increments as written in the code; D is the depth that reaches the       *)
(* capturing function, and the captured frame is element D + 1 of           *)
(* (forwarding frames, innermost first) \o (user frames, innermost first).  *)
(***************************************************************************)
EXTENDS Naturals, Sequences, TLC

\* user frames, innermost first: the harness's helper functions
UserStack == <<"p1.F1", "p2.F2", "p3.F3", "p4.F4", "harness">>
PkgOf(f) == CASE f = "p1.F1" -> "p1" [] f = "p2.F2" -> "p2" [] f = "p3.F3" -> "p3" [] f = "p4.F4" -> "p4"
              [] OTHER -> "lib:" \o f

Row(kind, hasDepth, chain, adds) == [kind |-> kind, hasDepth |-> hasDepth, chain |-> chain, adds |-> adds]

\* chain: forwarding functions from the public entry point inwards;
\* adds: what each of them adds to the depth it passes on
ApiTableBase(D) ==
  [ api \in {"none"} |-> Row("stack", FALSE, <<>>, <<>>) ] @@
  ( "errors.New" :> Row("stack", FALSE, <<"errors.New", "errutil.NewWithDepth">>, <<1, 1>>) ) @@
  ( "errors.NewWithDepth" :> Row("stack", TRUE, <<"errors.NewWithDepth", "errutil.NewWithDepth">>, <<1, 1>>) ) @@
  ( "errors.Newf" :> Row("stack", FALSE, <<"errors.Newf", "errutil.NewWithDepthf">>, <<1, 1>>) ) @@
  ( "errors.NewWithDepthf" :> Row("stack", TRUE, <<"errors.NewWithDepthf", "errutil.NewWithDepthf">>, <<1, 1>>) ) @@
  ( "errors.Errorf" :> Row("stack", FALSE, <<"errors.Errorf", "errutil.NewWithDepthf">>, <<1, 1>>) ) @@
  ( "errors.Wrap" :> Row("stack", FALSE, <<"errors.Wrap", "errutil.WrapWithDepth">>, <<1, 1>>) ) @@
  ( "errors.WrapWithDepth" :> Row("stack", TRUE, <<"errors.WrapWithDepth", "errutil.WrapWithDepth">>, <<1, 1>>) ) @@
  ( "errors.Wrapf" :> Row("stack", FALSE, <<"errors.Wrapf", "errutil.WrapWithDepthf">>, <<1, 1>>) ) @@
  ( "errors.WrapWithDepthf" :> Row("stack", TRUE, <<"errors.WrapWithDepthf", "errutil.WrapWithDepthf">>, <<1, 1>>) ) @@
  ( "errors.WithStack" :> Row("stack", FALSE, <<"errors.WithStack">>, <<1>>) ) @@
  ( "errors.WithStackDepth" :> Row("stack", TRUE, <<"errors.WithStackDepth">>, <<1>>) ) @@
  ( "errors.AssertionFailedf" :>
      Row("stack", FALSE, <<"errors.AssertionFailedf", "errutil.AssertionFailedWithDepthf", "errutil.NewWithDepthf">>, <<1, 1, 1>>) ) @@
  ( "errors.AssertionFailedWithDepthf" :>
      Row("stack", TRUE, <<"errors.AssertionFailedWithDepthf", "errutil.AssertionFailedWithDepthf", "errutil.NewWithDepthf">>, <<1, 1, 1>>) ) @@
  ( "errors.HandleAsAssertionFailure" :>
      Row("stack", FALSE, <<"errors.HandleAsAssertionFailure", "errutil.HandleAsAssertionFailureDepth">>, <<1, 1>>) ) @@
  ( "errors.HandleAsAssertionFailureDepth" :>
      Row("stack", TRUE, <<"errors.HandleAsAssertionFailureDepth", "errutil.HandleAsAssertionFailureDepth">>, <<1, 1>>) ) @@
  ( "errors.NewAssertionErrorWithWrappedErrf" :>
      Row("stack", FALSE, <<"errors.NewAssertionErrorWithWrappedErrf", "errutil.NewAssertionErrorWithWrappedErrDepthf",
                            "errutil.WrapWithDepthf">>, <<1, 1, 1>>) ) @@
  ( "errors.Join" :> Row("stack", FALSE, <<"errors.Join", "errutil.JoinWithDepth">>, <<1, 1>>) ) @@
  ( "errors.JoinWithDepth" :> Row("stack", TRUE, <<"errors.JoinWithDepth", "errutil.JoinWithDepth">>, <<1, 1>>) ) @@
  ( "errors.PackageDomain" :> Row("domain", FALSE, <<"errors.PackageDomain">>, <<1>>) ) @@
  \* as written, the root package passes its depth argument through unchanged
  ( "errors.PackageDomainAtDepth" :>
      Row("domain", TRUE, <<"errors.PackageDomainAtDepth">>, IF "RootPkgDomainDepthOffByOne" \in D THEN <<0>> ELSE <<1>>) ) @@
  ( "errutil.New" :> Row("stack", FALSE, <<"errutil.New", "errutil.NewWithDepth">>, <<1, 1>>) ) @@
  ( "errutil.NewWithDepth" :> Row("stack", TRUE, <<"errutil.NewWithDepth">>, <<1>>) ) @@
  ( "errutil.Newf" :> Row("stack", FALSE, <<"errutil.Newf", "errutil.NewWithDepthf">>, <<1, 1>>) ) @@
  ( "errutil.NewWithDepthf" :> Row("stack", TRUE, <<"errutil.NewWithDepthf">>, <<1>>) ) @@
  ( "errutil.Wrap" :> Row("stack", FALSE, <<"errutil.Wrap", "errutil.WrapWithDepth">>, <<1, 1>>) ) @@
  ( "errutil.WrapWithDepth" :> Row("stack", TRUE, <<"errutil.WrapWithDepth">>, <<1>>) ) @@
  ( "errutil.Wrapf" :> Row("stack", FALSE, <<"errutil.Wrapf", "errutil.WrapWithDepthf">>, <<1, 1>>) ) @@
  ( "errutil.WrapWithDepthf" :> Row("stack", TRUE, <<"errutil.WrapWithDepthf">>, <<1>>) ) @@
  ( "errutil.AssertionFailedf" :>
      Row("stack", FALSE, <<"errutil.AssertionFailedf", "errutil.AssertionFailedWithDepthf", "errutil.NewWithDepthf">>, <<1, 1, 1>>) ) @@
  ( "errutil.AssertionFailedWithDepthf" :>
      Row("stack", TRUE, <<"errutil.AssertionFailedWithDepthf", "errutil.NewWithDepthf">>, <<1, 1>>) ) @@
  ( "errutil.HandleAsAssertionFailure" :>
      Row("stack", FALSE, <<"errutil.HandleAsAssertionFailure", "errutil.HandleAsAssertionFailureDepth">>, <<1, 1>>) ) @@
  ( "errutil.HandleAsAssertionFailureDepth" :> Row("stack", TRUE, <<"errutil.HandleAsAssertionFailureDepth">>, <<1>>) ) @@
  ( "errutil.NewAssertionErrorWithWrappedErrf" :>
      Row("stack", FALSE, <<"errutil.NewAssertionErrorWithWrappedErrf", "errutil.NewAssertionErrorWithWrappedErrDepthf",
                            "errutil.WrapWithDepthf">>, <<1, 1, 1>>) ) @@
  ( "errutil.NewAssertionErrorWithWrappedErrDepthf" :>
      Row("stack", TRUE, <<"errutil.NewAssertionErrorWithWrappedErrDepthf", "errutil.WrapWithDepthf">>, <<1, 1>>) ) @@
  ( "errutil.JoinWithDepth" :> Row("stack", TRUE, <<"errutil.JoinWithDepth">>, <<1>>) ) @@
  ( "withstack.WithStack" :> Row("stack", FALSE, <<"withstack.WithStack">>, <<1>>) ) @@
  ( "withstack.WithStackDepth" :> Row("stack", TRUE, <<>>, <<>>) ) @@
  ( "domains.New" :> Row("domain", FALSE, <<"domains.New">>, <<1>>) ) @@
  ( "domains.Handled" :> Row("domain", FALSE, <<"domains.Handled">>, <<1>>) ) @@
  ( "domains.PackageDomain" :> Row("domain", FALSE, <<"domains.PackageDomain">>, <<1>>) ) @@
  ( "domains.PackageDomainAtDepth" :> Row("domain", TRUE, <<>>, <<>>) ) @@
  \* the constructors of grpc/status (Error / Errorf used to call errors.New / Newf without
  \* a depth: deviation GrpcStatusNewNoDepth, the stack began at status.Error itself)
  ( "status.Error" :> Row("stack", FALSE, <<"status.Error", "errors.NewWithDepth", "errutil.NewWithDepth">>,
                          IF "GrpcStatusNewNoDepth" \in D THEN <<0, 1, 1>> ELSE <<1, 1, 1>>) ) @@
  ( "status.Errorf" :> Row("stack", FALSE, <<"status.Errorf", "errors.NewWithDepthf", "errutil.NewWithDepthf">>,
                           IF "GrpcStatusNewNoDepth" \in D THEN <<0, 1, 1>> ELSE <<1, 1, 1>>) ) @@
  ( "status.WrapErr" :> Row("stack", FALSE, <<"status.WrapErr", "errors.WrapWithDepth", "errutil.WrapWithDepth">>, <<1, 1, 1>>) ) @@
  ( "status.WrapErrf" :> Row("stack", FALSE, <<"status.WrapErrf", "errors.WrapWithDepthf", "errutil.WrapWithDepthf">>, <<1, 1, 1>>) )

\* argument variants that take another path inside the same functions (empty
\* message or format, %w and error operands, nil operands): same chain, same attribution
Variants == [v \in {"errors.Wrap#empty", "errors.WrapWithDepth#empty", "errors.Wrapf#empty",
                    "errors.WrapWithDepthf#empty", "errors.New#empty", "errors.Newf#w", "errors.NewWithDepthf#w",
                    "errors.WrapWithDepthf#err", "errors.Join#nil", "errutil.Wrap#empty",
                    "errutil.WrapWithDepth#empty", "errutil.WrapWithDepthf#empty"} |->
               CASE v = "errors.Wrap#empty" -> "errors.Wrap" [] v = "errors.WrapWithDepth#empty" -> "errors.WrapWithDepth"
                 [] v = "errors.Wrapf#empty" -> "errors.Wrapf" [] v = "errors.WrapWithDepthf#empty" -> "errors.WrapWithDepthf"
                 [] v = "errors.New#empty" -> "errors.New" [] v = "errors.Newf#w" -> "errors.Newf"
                 [] v = "errors.NewWithDepthf#w" -> "errors.NewWithDepthf" [] v = "errors.WrapWithDepthf#err" -> "errors.WrapWithDepthf"
                 [] v = "errors.Join#nil" -> "errors.Join" [] v = "errutil.Wrap#empty" -> "errutil.Wrap"
                 [] v = "errutil.WrapWithDepth#empty" -> "errutil.WrapWithDepth"
                 [] v = "errutil.WrapWithDepthf#empty" -> "errutil.WrapWithDepthf"]
BaseTable(D) == ApiTableBase(D)
ApiTable(D) == BaseTable(D) @@ [v \in DOMAIN Variants |-> BaseTable(D)[Variants[v]]]

Apis(D) == DOMAIN ApiTable(D) \ {"none"}

RECURSIVE SumSeq(_)
SumSeq(s) == IF s = <<>> THEN 0 ELSE s[1] + SumSeq(Tail(s))
RECURSIVE Rev(_)
Rev(s) == IF s = <<>> THEN <<>> ELSE Rev(Tail(s)) \o <<s[1]>>

\* the frame captured (or whose package is taken) by api called with depth d, as the code computes it
Captured(api, d, D) ==
  LET r == ApiTable(D)[api]
      depthReaching == (IF r.hasDepth THEN d ELSE 0) + SumSeq(r.adds)
      frames == Rev(r.chain) \o UserStack
  IN frames[depthReaching + 1]

\* what C16 prescribes: the d-th caller above the function that called the API
Prescribed(api, d, D) == UserStack[(IF ApiTable(D)[api].hasDepth THEN d ELSE 0) + 1]

\* design-level statement of C16 on the table
AttributionOK(D) == \A api \in Apis(D) : \A d \in 0..3 : Captured(api, d, D) = Prescribed(api, d, D)
=============================================================================
