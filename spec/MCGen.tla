-------------------------------- MODULE MCGen --------------------------------
(***************************************************************************)
(* Stage 1 of the pipeline (DESIGN 5): bounded instances of ErrSystem.      *)
(* TLC explores every behaviour of at most MaxD steps built from the        *)
(* enabled operations and string shapes, checks the design-level            *)
(* invariants in every state, and prints each maximal behaviour as one      *)
(* JSON line for the harness to execute on the real code.                   *)
(***************************************************************************)
EXTENDS ErrSystem, TLC, Json

CONSTANTS MaxD,        \* behaviour length
          Ops,         \* enabled operation names
          Shapes,      \* message shapes (set of token sequences)
          Shapes2,     \* secondary shapes (hints, details, second arguments)
          NilOps,      \* TRUE: also apply wrappers to empty slots
          MaxNodes,    \* bound on the size of a slot's tree
          EmitAll,     \* TRUE: print behaviours
          Fresh,       \* TRUE: every string argument gets its own words (taint families)
          HopLast      \* n > 0: directed search, the last n steps are hops and hops occur only there

VARIABLES hist,        \* the steps taken so far
          nw,          \* number of words allocated (Fresh)
          fin          \* the behaviour is complete (it is printed exactly once)
vars == <<slots, net, reg, taint, procs, gor, hist, nw, fin>>

\* Shapes are templates: placeholders "$1".."$4" are instantiated with fresh
\* words when Fresh, so that every input string is searchable in the outputs.
WordK(k) == "w" \o ToString(IF Fresh THEN nw + k ELSE k)
PW(k) == IF Fresh THEN WordK(4 + k) ELSE WordK(k)          \* words of the fixed pools
Ph == [k \in 1..4 |-> "$" \o ToString(k)]
Inst(t) == [i \in 1..Len(t) |->
              IF \E k \in 1..4 : t[i] = Ph[k] THEN WordK(CHOOSE k \in 1..4 : t[i] = Ph[k]) ELSE t[i]]
SH == {Inst(t) : t \in Shapes}
SH2 == {Inst(t) : t \in Shapes2}

E == <<>>
NonNil(sl) == {i \in 1..NSlots : ~IsNil(sl[i])}
Free(sl) == {i \in 1..NSlots : IsNil(sl[i])}
FirstFree(sl) == IF Free(sl) = {} THEN {} ELSE {CHOOSE i \in Free(sl) : \A j \in Free(sl) : i <= j}
\* wrappers are applied in place; with NilOps also to the first empty slot
Targets(sl) == NonNil(sl) \cup (IF NilOps THEN FirstFree(sl) ELSE {})
Pairs(sl) == {p \in NonNil(sl) \X NonNil(sl) : p[1] # p[2]}
\* three operands (multi-cause nodes with more than two branches; the third may repeat the second)
Triples(sl) == {t \in NonNil(sl) \X NonNil(sl) \X NonNil(sl) : t[1] # t[2] /\ t[1] # t[3]}

SentinelPool == {<<"ID_ctxCanceled", "L_ctxCanceled">>, <<"ID_osErrNotExist", "L_osErrNotExist">>,
                 <<"ID_osErrExist", "L_osErrExist">>, <<"ID_osErrPermission", "L_osErrPermission">>,
                 <<"ID_ioEOF", "L_ioEOF">>}
\* errno name and the literal token of its text (EACCES prints the same text as os.ErrPermission)
ErrnoPool == {<<"ENOENT", "L_errno_ENOENT">>, <<"EACCES", "L_osErrPermission">>,
              <<"EEXIST", "L_errno_EEXIST">>, <<"EINTR", "L_errno_EINTR">>}
\* (also the same key twice in one call)
KeyPool == {<< <<PW(1)>> >>, << <<PW(2)>>, <<PW(1)>> >>, << <<PW(1)>>, <<PW(2)>>, <<PW(1)>> >>}
LinkPool == {<< <<PW(1)>>, <<PW(2)>> >>, << <<>>, <<PW(1)>> >>, << <<PW(2)>>, <<>> >>, << <<>>, <<>> >>,
             << <<PW(1), "PCT">>, <<"PCT", PW(2)>> >>}
\* tag values: strings, a value-less tag (NILV), a value marked safe (SAFEV), an integer
\* (EMPTYBUF: a context whose tag buffer exists but is empty; HostileTags: a value with marker characters)
TagPool == {<< <<PW(1)>>, <<PW(2)>> >>, << <<PW(2)>>, <<PW(1)>>, <<PW(1)>>, <<PW(3)>> >>,
            << <<PW(1)>>, <<"NILV">>, <<PW(2)>>, <<"SAFEV", PW(3)>> >>, << <<PW(3)>>, <<"n5">> >>,
            << <<"EMPTYBUF">> >>}
           \cup (IF "HostileTags" \in Ops THEN {<< <<PW(1)>>, <<PW(2), "MC", "SP", PW(3), "SP", "MO">> >>} ELSE {})
\* (n2 is codes.Unknown: attached explicitly, it still is the most recent code)
\* (n0 is codes.OK / an HTTP code of 0: still a code, the error stays an error; the transport
\* of the Grpc family cannot carry an error under codes.OK, so it is generated on request only)
CodePool == {<< <<"n404">> >>, << <<"n5">> >>, << <<"n2">> >>}
            \cup (IF "OKCode" \in Ops THEN {<< <<"n0">> >>} ELSE {})
            \cup (IF "AllGrpcCodes" \in Ops THEN {<< <<"n" \o ToString(k)>> >> : k \in 1..16} ELSE {})
ULeafKinds == {"uPtrLeaf", "uValLeaf", "uValPtrLeaf", "uRegLeaf", "uMaybe"}
UWrapKinds == {"uWrapU", "uWrapC", "uWrapUC", "uWrapFull", "uRegWrap", "uRegWrapFull", "uAnnotWrap", "uKeyWrap", "uMaybe"}

PartsPool(sl) ==
  {<<Part("lit", s, 0)>> : s \in SH}
  \cup {<<Part("lit", s, 0), Part("lit", <<SP>>, 0), Part("arg", t, 0)>> : s \in SH, t \in SH2}
  \cup {<<Part("safe", t, 0), Part("lit", <<SEP>>, 0), Part("arg", s, 0)>> : s \in SH, t \in SH2}
  \cup {<<Part("lit", s, 0), Part("lit", <<SP>>, 0), Part("err", E, r)>> : s \in SH2, r \in NonNil(sl)}
  \* two error operands printed back to back (their renderings touch)
  \cup {<<Part("err", E, r), Part("err", E, q)>> : r \in NonNil(sl), q \in NonNil(sl)}
\* formats without error operands (the f-variants of the annotation constructors)
PartsPoolPlain ==
  {<<Part("lit", s, 0)>> : s \in SH2}
  \cup {<<Part("lit", s, 0), Part("lit", <<SP>>, 0), Part("arg", t, 0)>> : s \in SH2, t \in SH2}
  \cup {<<Part("safe", t, 0), Part("lit", <<SEP>>, 0), Part("arg", s, 0)>> : s \in SH2, t \in SH2}
\* formats with one %w: after ": ", after a space, glued to the text, in front
WPartsPool(sl) ==
  {<<Part("lit", s, 0), Part("lit", <<SEP>>, 0), Part("w", E, r)>> : s \in SH2, r \in NonNil(sl)}
  \cup {<<Part("lit", s, 0), Part("lit", <<SP>>, 0), Part("w", E, r)>> : s \in SH2, r \in NonNil(sl)}
  \cup {<<Part("lit", s, 0), Part("w", E, r)>> : s \in SH2, r \in NonNil(sl)}
  \cup {<<Part("w", E, r), Part("lit", <<SP>>, 0), Part("lit", s, 0)>> : s \in SH2, r \in NonNil(sl)}

FamsIn(v) == {Fam(AllNodes(v)[i], <<>>) : i \in 1..Len(AllNodes(v))} \cap DecodableFam
\* every proper subset of the decodable families occurring in the value
KnownSets(v) == (SUBSET FamsIn(v)) \ {FamsIn(v)}

StrLeafOps  == {"GoNew", "New", "PkgNew"}
StrWrapOps  == {"Wrap", "WithMessage", "WithHint", "WithDetail", "WithDomain", "HandledWithMessage",
                "HandledInDomain", "PkgWithMessage", "PkgWrap", "OsSyscallError"}
BareWrapOps == {"WithStack", "WithAssertionFailure", "Handled", "Opaque", "HandleAsAssertionFailure",
                "PkgWithStack"}
BinOps      == {"Mark", "WithSecondaryError", "CombineErrors", "Join", "JoinPkg", "GoJoin"}
ForeignWrap == {"PkgWithMessage", "PkgWrap", "OsSyscallError", "PkgWithStack"}

\* take step st: the action of the generator
Take(st) ==
  /\ Do(st)
  /\ NodeCount(slots'[st.dst]) <= MaxNodes
  /\ hist' = Append(hist, st)
  /\ nw' = IF Fresh THEN nw + 7 ELSE nw
  /\ fin' = FALSE

On(o) == o \in Ops
\* The enabled steps, as nested quantifiers (one big set of step records would
\* be normalised by TLC in every state).  Leaves go to the first free slot,
\* wrappers are applied in place, binary operations replace the first operand.
Step1(sl) ==
  \/ \E o \in StrLeafOps \cap Ops : \E d \in FirstFree(sl) : \E s \in SH : Take(Step(o, d, E, s, E, E, 0, E))
  \/ On("Sentinel") /\ \E d \in FirstFree(sl) : \E p \in SentinelPool :
        Take(Step("Sentinel", d, E, <<p[2]>>, <<<<p[1]>>>>, E, 0, E))
  \/ On("GrpcStatus") /\ \E d \in FirstFree(sl) : \E s \in SH : Take(Step("GrpcStatus", d, E, s, E, E, 0, E))
  \/ On("CtxDeadline") /\ \E d \in FirstFree(sl) : Take(Step("CtxDeadline", d, E, E, E, E, 0, E))
  \/ On("Errno") /\ \E d \in FirstFree(sl) : \E n \in ErrnoPool : Take(Step("Errno", d, E, <<n[2]>>, <<<<n[1]>>>>, E, 0, E))
  \/ On("Unimplemented") /\ \E d \in FirstFree(sl) : \E s \in SH : \E lk \in LinkPool :
        Take(Step("Unimplemented", d, E, s, lk, E, 0, E))
  \/ \E o \in {"Newf", "AssertionFailedf"} \cap Ops : \E d \in FirstFree(sl) : \E p \in PartsPool(sl) :
        Take(Step(o, d, E, E, E, p, 0, E))
  \/ On("NewfW") /\ \E d \in FirstFree(sl) : \E p \in WPartsPool(sl) : Take(Step("Newf", d, E, E, E, p, 0, E))
  \* one %w operand plus another error operand (the result replaces the latter)
  \/ On("NewfW") /\ \E p \in Pairs(sl) : \E s \in SH2 :
        Take(Step("Newf", p[2], E, E, E,
                  <<Part("lit", s, 0), Part("lit", <<SEP>>, 0), Part("w", E, p[1]), Part("lit", <<SP>>, 0),
                    Part("err", E, p[2])>>, 0, E))
  \* ... and with the other error operand in front of the %w operand
  \/ On("NewfW") /\ \E p \in Pairs(sl) : \E s \in SH2 :
        Take(Step("Newf", p[2], E, E, E,
                  <<Part("lit", s, 0), Part("lit", <<SP>>, 0), Part("err", E, p[2]), Part("lit", <<SEP>>, 0),
                    Part("w", E, p[1])>>, 0, E))
  \* unregistered leaf with an ErrorKeyMarker
  \/ On("ULeaf") /\ \E d \in FirstFree(sl) : \E s \in SH : \E t \in SH2 :
        Take(Step("ULeaf", d, E, s, <<<<"uKeyLeaf">>, t>>, E, 0, E))
  \* unregistered leaf whose SafeDetails() returns a caller-supplied string
  \/ On("USafeDet") /\ \E d \in FirstFree(sl) : \E s \in SH : \E t \in SH2 :
        Take(Step("ULeaf", d, E, s, <<<<"uSafeDetLeaf">>, t>>, E, 0, E))
  \/ On("ULeaf") /\ \E d \in FirstFree(sl) : \E s \in SH : \E k \in ULeafKinds :
        Take(Step("ULeaf", d, E, s, <<<<k>>>>, E, 0, E))
  \* leaves with their own Is method: value-comparing (says it is any error whose
  \* text is the tag) and identity-comparing (the user sentinel)
  \/ On("UIs") /\ \E d \in FirstFree(sl) :
        \/ \E s \in SH : \E t \in SH : Take(Step("ULeaf", d, E, s, <<<<"uIsLeaf">>, t>>, E, 0, E))
        \/ \E s \in SH : Take(Step("ULeaf", d, E, s, <<<<"uIsIdLeaf">>>>, E, 0, E))
        \/ Take(Step("Sentinel", d, E, <<"w900">>, <<<<"ID_user">>>>, E, 0, E))
  \* wrappers, in place
  \/ \E o \in StrWrapOps \cap Ops :
        \E i \in (IF o \in ForeignWrap THEN NonNil(sl) ELSE Targets(sl)) :
          \E s \in (IF o \in {"Wrap", "WithMessage"} THEN SH \cup {E}
                    ELSE IF o \in {"PkgWithMessage", "PkgWrap"} THEN SH
                    \* (an empty syscall name is not "regular text = non-empty")
                    ELSE IF o = "OsSyscallError" THEN SH2 \ {E} ELSE SH2) :
            Take(Step(o, i, <<i>>, s, E, E, 0, E))
  \/ \E o \in BareWrapOps \cap Ops :
        \E i \in (IF o \in ForeignWrap THEN NonNil(sl) ELSE Targets(sl)) : Take(Step(o, i, <<i>>, E, E, E, 0, E))
  \* safe details with a Safe() argument the format has no verb for (also with an empty format)
  \/ On("WithSafeDetails") /\ \E i \in Targets(sl) : \E s \in SH \cup {E} : \E t \in SH2 :
        Take(Step("WithSafeDetails", i, <<i>>, E, E, <<Part("lit", s, 0), Part("xsafe", t, 0)>>, 0, E))
  \/ \E o \in {"Wrapf", "NewAssertionErrorWithWrappedErrf", "WithSafeDetails"} \cap Ops :
        \E i \in Targets(sl) : \E p \in PartsPool(sl) \cup {E} : Take(Step(o, i, <<i>>, E, E, p, 0, E))
  \/ \E o \in {"WithMessagef", "WithHintf", "WithDetailf"} \cap Ops :
        \E i \in Targets(sl) : \E p \in PartsPoolPlain : Take(Step(o, i, <<i>>, E, E, p, 0, E))
  \* (an empty message is not "regular text = non-empty")
  \/ On("UnimplementedErrorf") /\ \E d \in FirstFree(sl) :
        \E p \in {q \in PartsPoolPlain : q[1].s # E} : \E lk \in LinkPool :
        Take(Step("UnimplementedErrorf", d, E, E, lk, p, 0, E))
  \/ On("WithTelemetry") /\ \E i \in Targets(sl) : \E a \in KeyPool : Take(Step("WithTelemetry", i, <<i>>, E, a, E, 0, E))
  \/ On("WithIssueLink") /\ \E i \in Targets(sl) : \E a \in LinkPool : Take(Step("WithIssueLink", i, <<i>>, E, a, E, 0, E))
  \/ On("WithContextTags") /\ \E i \in Targets(sl) : \E a \in TagPool \cup {E} :
        Take(Step("WithContextTags", i, <<i>>, E, a, E, 0, E))
  \/ \E o \in {"WrapWithHTTPCode", "WrapWithGrpcCode"} \cap Ops : \E i \in Targets(sl) : \E a \in CodePool :
        Take(Step(o, i, <<i>>, E, a, E, 0, E))
  \/ On("EnsureNotInDomain") /\ \E i \in Targets(sl) : \E s \in SH2 :
        \E f \in {<<t>> : t \in SH2} \cup {<<<<"NODOM">>>>} \cup {<<t, <<"NODOM">>>> : t \in SH2} :
          Take(Step("EnsureNotInDomain", i, <<i>>, s, f, E, 0, E))
  \/ On("HandledInDomainWithMessage") /\ \E i \in Targets(sl) : \E s \in SH : \E t \in SH2 :
        Take(Step("HandledInDomainWithMessage", i, <<i>>, s, <<t>>, E, 0, E))
  \/ On("GoWrap") /\ \E i \in NonNil(sl) :
        \E pre \in {s \o <<SEP>> : s \in SH2} \cup {E} \cup SH2 :
          \E post \in {E} \cup {<<SP>> \o s : s \in SH2} : Take(Step("GoWrap", i, <<i>>, pre, <<post>>, E, 0, E))
  \/ On("OsPathError") /\ \E i \in NonNil(sl) : \E s \in SH2 :
        Take(Step("OsPathError", i, <<i>>, E, <<<<PW(1)>>, s>>, E, 0, E))
  \/ On("OsLinkError") /\ \E i \in NonNil(sl) : \E s \in SH2 :
        Take(Step("OsLinkError", i, <<i>>, E, <<<<PW(1)>>, s, <<PW(2)>>>>, E, 0, E))
  \/ On("UWrap") /\ \E i \in NonNil(sl) : \E s \in SH2 : \E k \in UWrapKinds :
        Take(Step("UWrap", i, <<i>>, s, <<<<k>>>>, E, 0, E))
  \* binary operations: the result replaces the first operand
  \/ \E o \in BinOps \cap Ops : \E p \in Pairs(sl) : Take(Step(o, p[1], <<p[1], p[2]>>, E, E, E, 0, E))
  \/ NilOps /\ \E o \in {"WithSecondaryError", "CombineErrors", "Join", "JoinPkg", "GoJoin", "Mark"} \cap Ops :
        \E i \in FirstFree(sl) : \E j \in NonNil(sl) \cup FirstFree(sl) : Take(Step(o, i, <<i, j>>, E, E, E, 0, E))
  \/ NilOps /\ \E o \in {"WithSecondaryError", "CombineErrors", "Join", "JoinPkg", "GoJoin"} \cap Ops :
        \E i \in NonNil(sl) : \E j \in FirstFree(sl) : Take(Step(o, i, <<i, j>>, E, E, E, 0, E))
  \/ NSlots >= 3 /\ \E o \in {"Join", "JoinPkg", "GoJoin"} \cap Ops : \E t \in Triples(sl) :
        Take(Step(o, t[1], <<t[1], t[2], t[3]>>, E, E, E, 0, E))
  \* a second handle on the same error object (annotated differently afterwards, the
  \* two are distinct errors with the same text and, possibly, the same type chain)
  \/ On("Copy") /\ \E i \in NonNil(sl) : \E d \in FirstFree(sl) : Take(Step("Copy", d, <<i>>, E, E, E, 0, E))
  \* a user multi-cause type that also has a pkg/errors-style Cause() (its first branch)
  \/ On("UMultiCause") /\ \E p \in Pairs(sl) : \E s \in SH :
        Take(Step("UMulti", p[1], <<p[1], p[2]>>, s, <<<<"CAUSE">>>>, E, 0, E))
  \/ On("GoWrap2") /\ \E p \in Pairs(sl) : \E s \in SH : Take(Step("UMulti", p[1], <<p[1], p[2]>>, s, E, E, 0, E))
  \* a user multi-cause type with registered encoder / decoder
  \/ On("GoWrap2") /\ \E p \in Pairs(sl) : \E s \in SH : Take(Step("UMulti", p[1], <<p[1], p[2]>>, s, <<<<"REG">>>>, E, 0, E))
  \* a multi-cause node with its own Is method (says it is any error whose text is the tag)
  \/ On("UIs") /\ On("GoWrap2") /\ \E p \in Pairs(sl) : \E s \in SH : \E t \in SH :
        Take(Step("UMulti", p[1], <<p[1], p[2]>>, s, <<t>>, E, 0, E))
  \/ On("GoWrap2") /\ \E p \in Pairs(sl) : \E s \in {<<SP>>, <<SEP>>, <<NL>>} :
        Take(Step("GoWrap2", p[1], <<p[1], p[2]>>, s, E, E, 0, E))


\* transfer
StepHop(sl) ==
  \/ On("Grpc") /\ \E i \in NonNil(sl) \cup (IF NilOps THEN FirstFree(sl) ELSE {}) :
        Take(Step("Grpc", i, <<i>>, E, E, E, 0, E))
  \/ On("Hop") /\ \E i \in NonNil(sl) : Take(Step("Hop", i, <<i>>, E, E, E, 0, <<"*">>))
  \* hop to a process that knows only a subset of the families occurring in the value
  \* (in a directed search with two closing hops the last one goes to a knowing process)
  \/ On("HopU") /\ ~(HopLast >= 2 /\ Len(hist) = MaxD - 1) /\ \E i \in NonNil(sl) : \E k \in KnownSets(sl[i]) :
        Take(Step("Hop", i, <<i>>, E, E, E, 0, SetToSeq(k)))

GInit == Init /\ hist = <<>> /\ nw = 0 /\ fin = FALSE

\* a behaviour of MaxD steps is closed by one Finish step, so that it is printed
\* once (in simulation mode TLC evaluates invariants on every successor it
\* generates, not only on the one it follows)
Finish == Len(hist) = MaxD /\ ~fin /\ fin' = TRUE /\ UNCHANGED <<slots, net, reg, taint, procs, gor, hist, nw>>
GNext ==
  \/ /\ Len(hist) < MaxD
     /\ IF HopLast = 0 THEN Step1(slots) \/ StepHop(slots)
        ELSE IF Len(hist) < MaxD - HopLast THEN Step1(slots) ELSE StepHop(slots)
  \/ Finish

GSpec == GInit /\ [][GNext]_vars

\* print every maximal behaviour (as one JSON line)
Emit == (EmitAll /\ fin) => PrintT("BEH " \o ToJson(hist))

---------------------------------------------------------------------------
(* Design-level invariants, evaluated in every reachable state with the     *)
(* deviation set of the configuration ({} = ideal design).                  *)

D == Deviations
ShapeText(t) == [text |-> t.text, k |-> t.k]   \* placeholder for per-node projection

RECURSIVE Skel(_)
RECURSIVE SkelSeq(_)
SkelSeq(vs) == IF vs = <<>> THEN <<>> ELSE <<Skel(vs[1])>> \o SkelSeq(Tail(vs))
\* shape and text at every node of the visible tree
Skel(v) == [text |-> Text(v), n |-> Len(v.kids), kids |-> SkelSeq(v.kids)]

\* a value held by a process that does not know all its types: some layer is
\* opaque although this build has a decoder for its family
HeldAtU(v) == \E i \in 1..Len(AllNodes(v)) :
                 LET n == AllNodes(v)[i] IN n.ty \in OpaqueTy /\ n.o.fam \in DecodableFam
\* (a multi-cause node that also has Cause() loses its other branches in transfer, by the
\* way EncodeError is written: the design-level claims do not cover values containing one)
HasHybrid(v) == \E i \in 1..Len(AllNodes(v)) : AllNodes(v)[i].ty = "uMultiCause"
Live == {i \in 1..NSlots : ~IsNil(slots[i]) /\ ~HeldAtU(slots[i]) /\ ~HasHybrid(slots[i])}
H1(v) == Hop(v, {"*"}, reg, D)

\* C01: shape and text survive a hop between knowing processes; no drift
InvC01 == \A i \in Live :
   LET v == slots[i] h1 == H1(v) h2 == H1(h1) IN
   /\ Skel(h1) = Skel(v)
   /\ Skel(h2) = Skel(v)
   /\ Enc(h2, reg, D) = Enc(h1, reg, D)

\* C02: Is is invariant under transfer of e, for references in the pool
InvC02 == \A i \in Live :
   LET v == slots[i] h1 == H1(v) rp == RefPool(slots) IN
   \A j \in 1..Len(rp) : \/ IsSpec(h1, rp[j], reg) = IsSpec(v, rp[j], reg)
                          \/ OnlyViaMethod(v, rp[j], reg)

\* C08: the implementation decides the documented equivalence, never panics
InvC08 == \A i \in Live :
   LET rp == RefPool(slots) IN
   \A j \in 1..Len(rp) : IsImpl(slots[i], rp[j], reg, D) = B2S(IsSpec(slots[i], rp[j], reg))

\* C07: hidden sub-trees are unreachable and contribute nothing
InvC07 == \A i \in Live :
   LET v == slots[i] hs == HiddenRoots(v) IN
   \A j \in 1..Len(hs) :
      \/ IsSpec(v, hs[j], reg) = FALSE
      \/ \E k \in 1..Len(VisNodes(v)) : Equiv(VisNodes(v)[k], hs[j], reg)

\* C11: accessors survive a hop between knowing processes
\* (the Go types of the layers change in transfer: withStack becomes an opaque wrapper)
InvC11 == \A i \in Live : [Acc(H1(slots[i])) EXCEPT !.hastype = {}] = [Acc(slots[i]) EXCEPT !.hastype = {}]

\* C04: at a process knowing any subset of the families: same text and shape,
\* re-encoding is the identity, and a later knowing process gets what it
\* would have got directly
InvC04 == \A i \in Live :
   LET v == slots[i] w == Enc(v, reg, D) IN
   \A k \in KnownSets(v) :
      LET u == Dec(w, k, D) IN
      /\ Skel(u) = Skel(v)
      /\ Enc(u, reg, D) = w
      /\ Dec(Enc(u, reg, D), {"*"}, D) = Dec(w, {"*"}, D)

DesignInv == InvC01 /\ InvC02 /\ InvC04 /\ InvC07 /\ InvC08 /\ InvC11
\* the same, on maximal behaviours only (simulation runs)
DesignInvLeaf == fin => DesignInv
=============================================================================
