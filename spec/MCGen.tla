-------------------------------- MODULE MCGen --------------------------------
(***************************************************************************)
(* Stage 1 of the pipeline (DESIGN 5): bounded instances of ErrSystem.      *)
(* TLC explores every behaviour of at most MaxD steps built from the        *)
(* enabled operations and string shapes, checks the design-level            *)
(* invariants in every state, and prints each maximal behaviour as one      *)
(* JSON line for the harness to execute on the real code.                   *)
(***************************************************************************)
EXTENDS ErrSystem, TLC, Json

CONSTANTS MaxD,        \* behaviour length
          Ops,         \* enabled operation names
          Shapes,      \* message shapes (set of token sequences)
          Shapes2,     \* secondary shapes (hints, details, second arguments)
          NilOps,      \* TRUE: also apply wrappers to empty slots
          MaxNodes,    \* bound on the size of a slot's tree
          EmitAll      \* TRUE: print behaviours

VARIABLE hist
vars == <<slots, net, reg, hist>>

E == <<>>
NonNil(sl) == {i \in 1..NSlots : ~IsNil(sl[i])}
Free(sl) == {i \in 1..NSlots : IsNil(sl[i])}
FirstFree(sl) == IF Free(sl) = {} THEN {} ELSE {CHOOSE i \in Free(sl) : \A j \in Free(sl) : i <= j}
\* wrappers are applied in place; with NilOps also to the first empty slot
Targets(sl) == NonNil(sl) \cup (IF NilOps THEN FirstFree(sl) ELSE {})
Pairs(sl) == {p \in NonNil(sl) \X NonNil(sl) : p[1] # p[2]}

SentinelPool == {<<"ID_ctxCanceled", "L_ctxCanceled">>, <<"ID_osErrNotExist", "L_osErrNotExist">>,
                 <<"ID_osErrExist", "L_osErrExist">>, <<"ID_osErrPermission", "L_osErrPermission">>,
                 <<"ID_ioEOF", "L_ioEOF">>}
\* errno name and the literal token of its text (EACCES prints the same text as os.ErrPermission)
ErrnoPool == {<<"ENOENT", "L_errno_ENOENT">>, <<"EACCES", "L_osErrPermission">>,
              <<"EEXIST", "L_errno_EEXIST">>, <<"EINTR", "L_errno_EINTR">>}
KeyPool == {<< <<"w1">> >>, << <<"w2">>, <<"w1">> >>}
LinkPool == {<< <<"w1">>, <<"w2">> >>, << <<>>, <<"w1">> >>, << <<"w2">>, <<>> >>, << <<>>, <<>> >>}
TagPool == {<< <<"w1">>, <<"w2">> >>, << <<"w2">>, <<"w1">>, <<"w1">>, <<"w3">> >>}
CodePool == {<< <<"n404">> >>, << <<"n5">> >>}
ULeafKinds == {"uPtrLeaf", "uValLeaf", "uRegLeaf", "uMaybe"}
UWrapKinds == {"uWrapU", "uWrapC", "uWrapUC", "uWrapFull", "uAnnotWrap", "uMaybe"}

PartsPool(sl) ==
  {<<Part("lit", s, 0)>> : s \in Shapes}
  \cup {<<Part("lit", s, 0), Part("lit", <<SP>>, 0), Part("arg", t, 0)>> : s \in Shapes, t \in Shapes2}
  \cup {<<Part("safe", t, 0), Part("lit", <<SEP>>, 0), Part("arg", s, 0)>> : s \in Shapes, t \in Shapes2}
  \cup {<<Part("lit", s, 0), Part("lit", <<SP>>, 0), Part("err", E, r)>> : s \in Shapes2, r \in NonNil(sl)}
WPartsPool(sl) ==
  {<<Part("lit", s, 0), Part("lit", <<SEP>>, 0), Part("w", E, r)>> : s \in Shapes2, r \in NonNil(sl)}
  \cup {<<Part("w", E, r), Part("lit", <<SP>>, 0), Part("lit", s, 0)>> : s \in Shapes2, r \in NonNil(sl)}

FamsIn(v) == {Fam(AllNodes(v)[i], <<>>) : i \in 1..Len(AllNodes(v))} \cap DecodableFam
\* every proper subset of the decodable families occurring in the value
KnownSets(v) == (SUBSET FamsIn(v)) \ {FamsIn(v)}

StrLeafOps  == {"GoNew", "New", "PkgNew"}
StrWrapOps  == {"Wrap", "WithMessage", "WithHint", "WithDetail", "WithDomain", "HandledWithMessage",
                "HandledInDomain", "PkgWithMessage", "PkgWrap", "OsSyscallError"}
BareWrapOps == {"WithStack", "WithAssertionFailure", "Handled", "Opaque", "HandleAsAssertionFailure",
                "PkgWithStack"}
BinOps      == {"Mark", "WithSecondaryError", "CombineErrors", "Join", "JoinPkg", "GoJoin"}
ForeignWrap == {"PkgWithMessage", "PkgWrap", "OsSyscallError", "PkgWithStack"}

\* candidate steps in state sl
Cands(sl) ==
  LET on(o) == o \in Ops IN
  UNION {
    {Step(o, d, E, s, E, E, 0, E) : o \in StrLeafOps \cap Ops, d \in FirstFree(sl), s \in Shapes},
    {Step("Sentinel", d, E, <<p[2]>>, <<<<p[1]>>>>, E, 0, E) :
        d \in (IF on("Sentinel") THEN FirstFree(sl) ELSE {}), p \in SentinelPool},
    {Step("CtxDeadline", d, E, E, E, E, 0, E) : d \in (IF on("CtxDeadline") THEN FirstFree(sl) ELSE {})},
    {Step("Errno", d, E, <<n[2]>>, <<<<n[1]>>>>, E, 0, E) :
        d \in (IF on("Errno") THEN FirstFree(sl) ELSE {}), n \in ErrnoPool},
    {Step("Unimplemented", d, E, s, l, E, 0, E) :
        d \in (IF on("Unimplemented") THEN FirstFree(sl) ELSE {}), s \in Shapes, l \in LinkPool},
    {Step(o, d, E, E, E, p, 0, E) :
        o \in {"Newf", "AssertionFailedf"} \cap Ops, d \in FirstFree(sl), p \in PartsPool(sl)},
    {Step("Newf", d, E, E, E, p, 0, E) :
        d \in (IF on("NewfW") THEN FirstFree(sl) ELSE {}), p \in WPartsPool(sl)},
    {Step("ULeaf", d, E, s, <<<<k>>>>, E, 0, E) :
        d \in (IF on("ULeaf") THEN FirstFree(sl) ELSE {}), s \in Shapes, k \in ULeafKinds},
    \* leaves with their own Is method: value-comparing (says it is any error
    \* whose text is the tag) and identity-comparing (the user sentinel)
    {Step("ULeaf", d, E, s, <<<<"uIsLeaf">>, t>>, E, 0, E) :
        d \in (IF on("UIs") THEN FirstFree(sl) ELSE {}), s \in Shapes, t \in Shapes},
    {Step("ULeaf", d, E, s, <<<<"uIsIdLeaf">>>>, E, 0, E) :
        d \in (IF on("UIs") THEN FirstFree(sl) ELSE {}), s \in Shapes},
    {Step("Sentinel", d, E, <<"w900">>, <<<<"ID_user">>>>, E, 0, E) :
        d \in (IF on("UIs") THEN FirstFree(sl) ELSE {})},
    \* wrappers, in place
    UNION {{Step(o, i, <<i>>, s, E, E, 0, E) :
               i \in (IF o \in ForeignWrap THEN NonNil(sl) ELSE Targets(sl)),
               s \in (IF o \in {"Wrap", "WithMessage"} THEN Shapes \cup {E}
                      ELSE IF o \in {"PkgWithMessage", "PkgWrap"} THEN Shapes ELSE Shapes2)} :
           o \in StrWrapOps \cap Ops},
    UNION {{Step(o, i, <<i>>, E, E, E, 0, E) :
               i \in (IF o \in ForeignWrap THEN NonNil(sl) ELSE Targets(sl))} :
           o \in BareWrapOps \cap Ops},
    {Step(o, i, <<i>>, E, E, p, 0, E) :
        o \in {"Wrapf", "NewAssertionErrorWithWrappedErrf", "WithSafeDetails"} \cap Ops,
        i \in Targets(sl), p \in PartsPool(sl) \cup {E}},
    {Step("WithTelemetry", i, <<i>>, E, a, E, 0, E) :
        i \in (IF on("WithTelemetry") THEN Targets(sl) ELSE {}), a \in KeyPool},
    {Step("WithIssueLink", i, <<i>>, E, a, E, 0, E) :
        i \in (IF on("WithIssueLink") THEN Targets(sl) ELSE {}), a \in LinkPool},
    {Step("WithContextTags", i, <<i>>, E, a, E, 0, E) :
        i \in (IF on("WithContextTags") THEN Targets(sl) ELSE {}), a \in TagPool \cup {E}},
    {Step(o, i, <<i>>, E, a, E, 0, E) :
        o \in {"WrapWithHTTPCode", "WrapWithGrpcCode"} \cap Ops, i \in Targets(sl), a \in CodePool},
    {Step("HandledInDomainWithMessage", i, <<i>>, s, <<t>>, E, 0, E) :
        i \in (IF on("HandledInDomainWithMessage") THEN Targets(sl) ELSE {}), s \in Shapes, t \in Shapes2},
    {Step("GoWrap", i, <<i>>, pre, <<post>>, E, 0, E) :
        i \in (IF on("GoWrap") THEN NonNil(sl) ELSE {}),
        pre \in {s \o <<SEP>> : s \in Shapes2} \cup {E} \cup Shapes2, post \in {E} \cup {<<SP>> \o s : s \in Shapes2}},
    {Step("OsPathError", i, <<i>>, E, <<<<"w1">>, s>>, E, 0, E) :
        i \in (IF on("OsPathError") THEN NonNil(sl) ELSE {}), s \in Shapes2},
    {Step("OsLinkError", i, <<i>>, E, <<<<"w1">>, s, <<"w2">>>>, E, 0, E) :
        i \in (IF on("OsLinkError") THEN NonNil(sl) ELSE {}), s \in Shapes2},
    {Step("UWrap", i, <<i>>, s, <<<<k>>>>, E, 0, E) :
        i \in (IF on("UWrap") THEN NonNil(sl) ELSE {}), s \in Shapes2, k \in UWrapKinds},
    \* binary operations: result replaces the first operand
    {Step(o, p[1], <<p[1], p[2]>>, E, E, E, 0, E) : o \in BinOps \cap Ops, p \in Pairs(sl)},
    {Step(o, i, <<i, j>>, E, E, E, 0, E) :
        o \in (IF NilOps THEN {"WithSecondaryError", "CombineErrors", "Join", "JoinPkg", "GoJoin", "Mark"} \cap Ops ELSE {}),
        i \in FirstFree(sl), j \in NonNil(sl) \cup FirstFree(sl)},
    {Step(o, i, <<i, j>>, E, E, E, 0, E) :
        o \in (IF NilOps THEN {"WithSecondaryError", "CombineErrors", "Join", "JoinPkg", "GoJoin"} \cap Ops ELSE {}),
        i \in NonNil(sl), j \in FirstFree(sl)},
    {Step("GoWrap2", p[1], <<p[1], p[2]>>, s, E, E, 0, E) :
        p \in (IF on("GoWrap2") THEN Pairs(sl) ELSE {}), s \in {<<SP>>, <<SEP>>, <<NL>>}},
    {Step("Hop", i, <<i>>, E, E, E, 0, <<"*">>) : i \in (IF on("Hop") THEN NonNil(sl) ELSE {})},
    \* hop to a process that knows only a subset of the families occurring in the value
    UNION {{Step("Hop", i, <<i>>, E, E, E, 0, SetToSeq(k)) : k \in KnownSets(sl[i])} :
           i \in (IF on("HopU") THEN NonNil(sl) ELSE {})}
  }

GInit == Init /\ hist = <<>>

GNext ==
  /\ Len(hist) < MaxD
  /\ \E st \in Cands(slots) :
       /\ Do(st)
       /\ NodeCount(slots'[st.dst]) <= MaxNodes
       /\ hist' = Append(hist, st)

GSpec == GInit /\ [][GNext]_vars

\* print every maximal behaviour (as one JSON line)
Emit == (EmitAll /\ Len(hist) = MaxD) => PrintT("BEH " \o ToJson(hist))

---------------------------------------------------------------------------
(* Design-level invariants, evaluated in every reachable state with the     *)
(* deviation set of the configuration ({} = ideal design).                  *)

D == Deviations
ShapeText(t) == [text |-> t.text, k |-> t.k]   \* placeholder for per-node projection

RECURSIVE Skel(_)
RECURSIVE SkelSeq(_)
SkelSeq(vs) == IF vs = <<>> THEN <<>> ELSE <<Skel(vs[1])>> \o SkelSeq(Tail(vs))
\* shape and text at every node of the visible tree
Skel(v) == [text |-> Text(v), n |-> Len(v.kids), kids |-> SkelSeq(v.kids)]

\* a value held by a process that does not know all its types: some layer is
\* opaque although this build has a decoder for its family
HeldAtU(v) == \E i \in 1..Len(AllNodes(v)) :
                 LET n == AllNodes(v)[i] IN n.ty \in OpaqueTy /\ n.o.fam \in DecodableFam
Live == {i \in 1..NSlots : ~IsNil(slots[i]) /\ ~HeldAtU(slots[i])}
H1(v) == Hop(v, {"*"}, reg, D)

\* C01: shape and text survive a hop between knowing processes; no drift
InvC01 == \A i \in Live :
   LET v == slots[i] h1 == H1(v) h2 == H1(h1) IN
   /\ Skel(h1) = Skel(v)
   /\ Skel(h2) = Skel(v)
   /\ Enc(h2, reg, D) = Enc(h1, reg, D)

\* C02: Is is invariant under transfer of e, for references in the pool
InvC02 == \A i \in Live :
   LET v == slots[i] h1 == H1(v) rp == RefPool(slots) IN
   \A j \in 1..Len(rp) : \/ IsSpec(h1, rp[j], reg) = IsSpec(v, rp[j], reg)
                          \/ OnlyViaMethod(v, rp[j], reg)

\* C08: the implementation decides the documented equivalence, never panics
InvC08 == \A i \in Live :
   LET rp == RefPool(slots) IN
   \A j \in 1..Len(rp) : IsImpl(slots[i], rp[j], reg, D) = B2S(IsSpec(slots[i], rp[j], reg))

\* C07: hidden sub-trees are unreachable and contribute nothing
InvC07 == \A i \in Live :
   LET v == slots[i] hs == HiddenRoots(v) IN
   \A j \in 1..Len(hs) :
      \/ IsSpec(v, hs[j], reg) = FALSE
      \/ \E k \in 1..Len(VisNodes(v)) : Equiv(VisNodes(v)[k], hs[j], reg)

\* C11: accessors survive a hop between knowing processes
InvC11 == \A i \in Live : Acc(H1(slots[i])) = Acc(slots[i])

\* C04: at a process knowing any subset of the families: same text and shape,
\* re-encoding is the identity, and a later knowing process gets what it
\* would have got directly
InvC04 == \A i \in Live :
   LET v == slots[i] w == Enc(v, reg, D) IN
   \A k \in KnownSets(v) :
      LET u == Dec(w, k, D) IN
      /\ Skel(u) = Skel(v)
      /\ Enc(u, reg, D) = w
      /\ Dec(Enc(u, reg, D), {"*"}, D) = Dec(w, {"*"}, D)

DesignInv == InvC01 /\ InvC02 /\ InvC04 /\ InvC07 /\ InvC08 /\ InvC11
\* the same, on maximal behaviours only (simulation runs)
DesignInvLeaf == Len(hist) = MaxD => DesignInv
=============================================================================
