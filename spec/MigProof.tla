------------------------------ MODULE MigProof -------------------------------
(* TLAPS proof, for ANY set of names and any number and order of             *)
(* registrations, of the inductive invariant of the rename registry          *)
(* (MigFun!RegTbl = ErrSystem!RegisterMigration without deviation): a family *)
(* name is a fixed point of the table, and both names of every accepted      *)
(* rename are encoded under the same family (C17: identity across versions   *)
(* does not depend on the order of registration).                            *)
EXTENDS MigFun, TLAPS

CONSTANT Names
VARIABLES tbl, done

Register(prev, new) ==
  IF new \in DOMAIN tbl THEN UNCHANGED <<tbl, done>>        \* rejected
  ELSE /\ tbl' = RegTbl(tbl, prev, new)
       /\ done' = done \cup {<<prev, new>>}

Init == tbl = [k \in {} |-> k] /\ done = {}
Next == \E prev \in Names, new \in Names : Register(prev, new)

TypeOK == /\ DOMAIN tbl \subseteq Names
          /\ tbl \in [DOMAIN tbl -> Names]
          /\ done \subseteq (Names \X Names)
Idempotent == \A k \in DOMAIN tbl : FamP(tbl[k], tbl) = tbl[k]
SameFamily == \A d \in done : FamP(d[1], tbl) = FamP(d[2], tbl)
IndInv == TypeOK /\ Idempotent /\ SameFamily

THEOREM InitInv == Init => IndInv
  BY DEF Init, IndInv, TypeOK, Idempotent, SameFamily, FamP

THEOREM StepInv == IndInv /\ Next => IndInv'
  <1> SUFFICES ASSUME IndInv, NEW prev \in Names, NEW new \in Names, Register(prev, new)
               PROVE IndInv'
    BY DEF Next
  <1>1. CASE new \in DOMAIN tbl
    BY <1>1 DEF Register, IndInv, TypeOK, Idempotent, SameFamily, FamP
  <1>2. CASE new \notin DOMAIN tbl
    <2> DEFINE root == IF prev \in DOMAIN tbl THEN tbl[prev] ELSE prev
    <2>1. tbl' = RegTbl(tbl, prev, new) /\ done' = done \cup {<<prev, new>>}
      BY <1>2 DEF Register
    <2>2. root \in Names /\ root \notin DOMAIN tbl \/ (root \in DOMAIN tbl /\ tbl[root] = root)
      BY DEF IndInv, TypeOK, Idempotent, FamP
    <2>3. DOMAIN tbl' = DOMAIN tbl \cup {new}
      BY <2>1 DEF RegTbl
    <2>4. \A k \in DOMAIN tbl' : tbl'[k] = IF k = new THEN root ELSE (IF tbl[k] = new THEN root ELSE tbl[k])
      BY <2>1, <1>2 DEF RegTbl
    <2>4a. tbl' = [k \in DOMAIN tbl \cup {new} |->
                     IF k = new THEN root ELSE (IF tbl[k] = new THEN root ELSE tbl[k])]
      BY <2>1, <1>2 DEF RegTbl
    <2>4b. root \in Names
      BY DEF IndInv, TypeOK
    <2>5. TypeOK'
      <3>1. DOMAIN tbl' \subseteq Names  BY <2>3 DEF IndInv, TypeOK
      <3>2. tbl' \in [DOMAIN tbl' -> Names]
        <4>1. \A k \in DOMAIN tbl \cup {new} :
                 (IF k = new THEN root ELSE (IF tbl[k] = new THEN root ELSE tbl[k])) \in Names
          BY <2>4b DEF IndInv, TypeOK
        <4> QED BY <4>1, <2>4a, <2>3
      <3>3. done' \subseteq (Names \X Names)  BY <2>1 DEF IndInv, TypeOK
      <3> QED BY <3>1, <3>2, <3>3 DEF TypeOK
    <2>6. Idempotent'
      BY <1>2, <2>2, <2>3, <2>4 DEF IndInv, TypeOK, Idempotent, FamP
    <2>7. SameFamily'
      BY <1>2, <2>1, <2>2, <2>3, <2>4 DEF IndInv, TypeOK, Idempotent, SameFamily, FamP
    <2> QED BY <2>5, <2>6, <2>7 DEF IndInv
  <1> QED BY <1>1, <1>2
=============================================================================
