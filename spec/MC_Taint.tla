------------------------------ MODULE MC_Taint -------------------------------
(* Family Taint (DESIGN 4.3): every string argument is a regular or hostile  *)
(* shape around its OWN fresh words, so that each input is searchable in     *)
(* every output.  Serves C03, C12, C06.                                     *)
EXTENDS MCGen
OpsV == {"HostileTags", "Copy", "GoNew", "Sentinel", "Errno", "New", "Newf", "NewfW", "PkgNew", "Unimplemented",
         "AssertionFailedf", "ULeaf", "Wrap", "Wrapf", "WithMessage", "WithMessagef", "WithHintf", "WithDetailf", "UnimplementedErrorf",  "WithStack", "WithHint",
         "WithDetail", "WithSafeDetails", "WithTelemetry", "WithDomain", "WithIssueLink",
         "WithContextTags", "WithAssertionFailure", "Mark", "WithSecondaryError", "CombineErrors",
         "Handled", "HandledWithMessage", "HandledInDomain", "EnsureNotInDomain", "HandledInDomainWithMessage",
         "HandleAsAssertionFailure", "NewAssertionErrorWithWrappedErrf", "WrapWithHTTPCode",
         "GoWrap", "PkgWithMessage", "PkgWrap", "OsPathError", "OsLinkError", "OsSyscallError",
         "UWrap", "USafeDet", "Join", "GoJoin", "GoWrap2", "Hop", "HopU"}
\* restricted instance: barriers with unsafe messages through an unknowing, then a knowing process
OpsBarrier == {"GoNew", "New", "Newf", "Handled", "HandledWithMessage", "HandledInDomain", "Wrap", "WithHint",
               "Hop", "HopU"}
Reg1 == {<<"$1">>, <<"$1", "SEP", "$2">>, <<"$1", "NL", "$2">>, <<"PCT", "$1">>, <<"$1", "QT">>}
Hostile1 == {<<>>, <<"MO", "$1">>, <<"$1", "MC">>, <<"MC", "$1", "MO">>, <<"NL", "$1">>, <<"$1", "NL">>,
             <<"$1", "NL", "NL", "$2">>, <<"$1", "BAD">>, <<"NUL", "$1">>, <<"RM", "$1">>, <<"SP", "$1", "SP">>,
             <<"MO", "$1", "NL", "$2", "MC">>}
Reg2 == {<<"$3">>, <<"$3", "SEP", "$4">>}
Hostile2 == {<<"MO", "$3">>, <<"$3", "MC", "NL", "$4">>, <<"NL", "$3">>, <<"$3", "BAD">>}
ShapesOneW == {<<"$1">>}
ShapesV == Reg1 \cup Hostile1
Shapes2V == Reg2 \cup Hostile2
\* restricted instance: what the library declares safe (links, keys, domains, tag keys,
\* constant messages), transferred between knowing processes
OpsRetain == {"New", "Unimplemented", "WithIssueLink", "WithTelemetry", "WithDomain", "WithContextTags",
              "Handled", "WithSecondaryError", "Hop"}
\* the same, with two handles on one error annotated differently and then combined
OpsRetain2 == {"GoNew", "Sentinel", "Copy", "WithTelemetry", "WithSafeDetails", "WithContextTags", "WithStack",
               "WithSecondaryError", "CombineErrors", "Hop"}
\* long strings: an unsafe word, then more text than any size limit of a reporting path
ShapesLong == {<<"$1", "SP", "L_pad", "SP", "$2">>, <<"$1">>}
\* regular strings only (congruence, retention)
ShapesR == Reg1
Shapes2R == Reg2
=============================================================================
