------------------------------ MODULE MC_Format ------------------------------
(* Family Format (DESIGN 4.3): formatting verbs, verbose rendering and        *)
(* Sentry report of locally built and decoded values.  Serves C09, C15.      *)
EXTENDS MCGen
OpsV == {"GoNew", "Sentinel", "Errno", "New", "Newf", "NewfW", "PkgNew", "Unimplemented",
         "AssertionFailedf", "ULeaf", "Wrap", "Wrapf", "WithMessage", "WithMessagef", "WithHintf", "WithDetailf", "UnimplementedErrorf",  "WithStack", "WithHint",
         "WithDetail", "WithSafeDetails", "WithTelemetry", "WithDomain", "WithIssueLink",
         "WithContextTags", "WithAssertionFailure", "Mark", "WithSecondaryError",
         "Handled", "HandledWithMessage", "HandledInDomain", "HandleAsAssertionFailure",
         "NewAssertionErrorWithWrappedErrf", "WrapWithHTTPCode", "WrapWithGrpcCode", "GoWrap",
         "PkgWithMessage", "PkgWithStack", "PkgWrap", "OsPathError", "OsSyscallError", "UWrap",
         "Join", "JoinPkg", "GoJoin", "GoWrap2", "Hop"}
\* restricted instance: several domains and several stack-bearing layers in one chain
\* (every exception of the report carries the domain of the error as a whole)
OpsDomains == {"New", "GoNew", "Wrap", "WithStack", "WithDomain", "HandledInDomain", "Join"}
\* restricted instance: the same error object under two branches of a multi-cause node
\* (every occurrence is a layer of the report)
OpsShared == {"GoNew", "Errno", "Copy", "Wrap", "Join", "JoinPkg"}
ShapesOneF == {<<"w1">>}
ShapesDom == {<<"w1">>, <<"w2">>}
ShapesV == {<<"w1">>, <<"w1", "SEP", "w2">>, <<"w2", "NL", "w1">>}
Shapes2V == {<<"w2">>, <<"w3", "SEP", "w1">>, <<"w2", "PCT">>}
\* single-line messages only
ShapesL == {<<"w1">>, <<"w1", "SEP", "w2">>}
=============================================================================
