----------------------------- MODULE MC_Transfer -----------------------------
(* Family Transfer (DESIGN 4.3): constructors plus hops between knowing     *)
(* processes.  Serves C01, C02, C11, C13.                                   *)
EXTENDS MCGen
OpsV == {"GoNew", "Sentinel", "CtxDeadline", "Errno", "New", "Newf", "NewfW", "PkgNew", "Unimplemented",
         "AssertionFailedf", "ULeaf", "Wrap", "Wrapf", "WithMessage", "WithMessagef", "WithHintf", "WithDetailf", "UnimplementedErrorf",  "WithStack", "WithHint",
         "WithDetail", "WithSafeDetails", "WithTelemetry", "WithDomain", "WithIssueLink",
         "WithContextTags", "WithAssertionFailure", "Mark", "WithSecondaryError", "CombineErrors",
         "Handled", "HandledWithMessage", "HandledInDomain", "EnsureNotInDomain",
         "HandleAsAssertionFailure", "NewAssertionErrorWithWrappedErrf", "WrapWithHTTPCode",
         "WrapWithGrpcCode", "GoWrap", "PkgWithMessage", "PkgWithStack", "PkgWrap", "OsPathError",
         "OsLinkError", "OsSyscallError", "UWrap", "Join", "GoJoin", "GoWrap2", "Hop"}
\* restricted instance: long chains (twenty and more layers), hops anywhere
OpsDeep == {"GoNew", "New", "Wrap", "WithStack", "WithHint", "WithDomain", "WithTelemetry", "Handled", "GoWrap", "Hop", "HopU"}
ShapesV == {<<"w1">>, <<"w1", "SEP", "w2">>, <<"w2", "NL", "w1">>, <<"w2", "PCT">>}
Shapes2V == {<<"w2">>, <<"w1", "SEP", "w1">>}
=============================================================================
