------------------------------ MODULE MC_Annot -------------------------------
(* Family Annot: annotation chains with repeated, empty and interleaved      *)
(* hints / details / links / keys / tags.  Serves C19, C11.                 *)
EXTENDS MCGen
OpsV == {"OKCode", "GoNew", "Unimplemented", "AssertionFailedf", "WithHint", "WithHintf", "WithDetailf", "UnimplementedErrorf",  "WithDetail", "WithTelemetry",
         "WithDomain", "WithIssueLink", "WithContextTags", "WithAssertionFailure",
         "HandleAsAssertionFailure", "WrapWithHTTPCode", "WrapWithGrpcCode", "Join", "Hop"}
\* restricted instance: OS-level errors (sentinels, errnos, path / syscall / link errors)
\* whose predicates (permission / exist / not-exist / timeout) must survive hops
OpsOS == {"Sentinel", "Errno", "CtxDeadline", "OsPathError", "OsSyscallError", "OsLinkError", "Wrap", "WithHint", "Hop"}
\* restricted instance: long hint / detail chains over a six-word vocabulary
OpsHints == {"GoNew", "WithHint", "WithDetail", "WithAssertionFailure", "WithIssueLink"}
ShapesH == {<<"w1">>, <<"w2">>, <<"w3">>, <<"w4">>, <<"w5">>, <<"w6">>}
ShapesV == {<<"w1">>}
Shapes2V == {<<"w1">>, <<"w2">>, <<>>}
=============================================================================
