-------------------------------- MODULE Trace --------------------------------
(***************************************************************************)
(* Stage 3 of the pipeline (DESIGN 5): validation of a trace recorded from  *)
(* the real code.  Every event is the step the harness executed plus the    *)
(* projection it observed.  The trace specification takes the SAME step     *)
(* with ErrSystem's own Build/Enabled, so the model state advances exactly  *)
(* as the specification says, and compares every recorded field with        *)
(*   - the model's prediction (conformance, kind "conf"), and               *)
(*   - what each property prescribes (verdict, kind "verdict"): the ideal   *)
(*     value, or a relation between two recorded observations.              *)
(* A disagreement never blocks the walk: it is printed as a MISMATCH line   *)
(* and classified by the orchestrator.  An event the specification cannot   *)
(* take at all leaves the trace unfinished and fails the postcondition.     *)
(***************************************************************************)
EXTENDS ErrSystem, TLC, Json

TraceLog == ndJsonDeserialize("trace.ndjson")

VARIABLE l
tvars == <<slots, net, reg, l>>

D == Deviations

\* print one mismatch; always TRUE
Mis(ev, field, kind, props, exp, got) ==
  PrintT("MISMATCH " \o ToJson([beh |-> ev.beh, l |-> l, op |-> ev.step.op, field |-> field,
                                kind |-> kind, props |-> props, exp |-> exp, got |-> got]))
Chk(ok, ev, field, kind, props, exp, got) == IF ok THEN TRUE ELSE Mis(ev, field, kind, props, exp, got)

\* recorded tree -> shape and text at every node
RECURSIVE RSkel(_)
RECURSIVE RSkelSeq(_)
RSkelSeq(ts) == IF ts = <<>> THEN <<>> ELSE <<RSkel(ts[1])>> \o RSkelSeq(Tail(ts))
RSkel(t) == [text |-> t.text, k |-> t.k, kids |-> RSkelSeq(t.kids)]
RECURSIVE MSkel(_)
RECURSIVE MSkelSeq(_)
MSkelSeq(vs) == IF vs = <<>> THEN <<>> ELSE <<MSkel(vs[1])>> \o MSkelSeq(Tail(vs))
MSkel(v) == [text |-> Text(v), k |-> IF IsWrap(v) THEN "w" ELSE IF IsMulti(v) THEN "m" ELSE "l",
             kids |-> MSkelSeq(v.kids)]

HasHidden(v) == \E i \in 1..Len(AllNodes(v)) : AllNodes(v)[i].hid # <<>>
HasMulti(v) == \E i \in 1..Len(AllNodes(v)) : IsMulti(AllNodes(v)[i])

\* properties a structural / identity disagreement on value v speaks to
PropsFor(base, v) ==
  base \cup (IF HasHidden(v) THEN {"C07"} ELSE {}) \cup (IF HasMulti(v) THEN {"C13"} ELSE {})

AccFields == {"hints", "details", "fhints", "fdetails", "links", "tags", "domain", "hasAssert",
              "isAssert", "hasLink", "isLink", "hasUnimpl", "isUnimpl", "http", "grpc"}

\* compare a recorded accessor observation with a model one
AccDiff(ra, ma) ==
  {f \in AccFields : ra[f] # ma[f]} \cup (IF SeqToSet(ra.keys) # ma.keys THEN {"keys"} ELSE {})
RAccDiff(ra, rb) == {f \in AccFields \cup {"keys"} : ra[f] # rb[f]}

\* ---- constructor steps: recorded vs ideal (= model: constructors have no deviation)
ReportBuild(ev, new) ==
  LET st == ev.step
      v == new[st.dst]
      o == ev.obs
  IN
  /\ Chk(o.panic = "", ev, "panic", "verdict", {"C08", "C10"}, "", o.panic)
  /\ Chk(o.nil = IsNil(v), ev, "nil", "verdict", {"C10"}, IsNil(v), o.nil)
  /\ IF o.nil \/ IsNil(v) THEN TRUE
     ELSE
     /\ Chk(RSkel(o.tree) = MSkel(v), ev, "skel", "verdict", PropsFor({"C10"}, v), MSkel(v), RSkel(o.tree))
     /\ Chk(o.tree = TreeOf(v, reg), ev, "tree", "conf", {}, TreeOf(v, reg), o.tree)
     /\ LET d == AccDiff(o.acc, Acc(v)) IN
        Chk(d = {}, ev, "acc", "verdict", PropsFor({"C19"}, v), [f \in d |-> Acc(v)[f]], [f \in d |-> o.acc[f]])
     /\ LET spec == IsSpecVec(v, new, reg) IN
        Chk(o.is = spec, ev, "is", "verdict", PropsFor({"C08"}, v), spec, o.is)

\* ---- hops: relational verdicts on the two recorded observations, conformance
\* of the received value against the model
ReportHop(ev, base, new) ==
  LET st == ev.step
      v == new[st.dst]
      o == ev.obs
      p == ev.pre
      knowing == "*" \in SeqToSet(st.known)
  IN
  /\ Chk(o.panic = "", ev, "panic", "verdict", {"C01", "C05"}, "", o.panic)
  /\ Chk(o.nil = IsNil(v), ev, "nil", "conf", {}, IsNil(v), o.nil)
  /\ IF o.nil \/ IsNil(v) THEN TRUE
     ELSE
     /\ Chk(RSkel(o.tree) = RSkel(p.tree), ev, "hop.skel", "verdict",
            PropsFor(IF knowing THEN {"C01"} ELSE {"C04"}, v), RSkel(p.tree), RSkel(o.tree))
     /\ Chk(o.tree = TreeOf(v, reg), ev, "tree", "conf", {}, TreeOf(v, reg), o.tree)
     /\ LET d == RAccDiff(o.acc, p.acc) IN
        Chk(d = {}, ev, "hop.acc", "verdict", IF knowing THEN {"C11"} ELSE {"C04"},
            [f \in d |-> p.acc[f]], [f \in d |-> o.acc[f]])
     /\ Chk(o.is = p.is, ev, "hop.is", "verdict", PropsFor({"C02"}, v), p.is, o.is)
     /\ LET d == AccDiff(o.acc, Acc(v)) IN
        Chk(d = {}, ev, "acc", "conf", {}, [f \in d |-> Acc(v)[f]], [f \in d |-> o.acc[f]])
     /\ LET code == IsVec(v, base, reg, D) IN Chk(o.is = code, ev, "is", "conf", {}, code, o.is)

TInit == Init /\ l = 1

TNext ==
  /\ l <= Len(TraceLog)
  /\ LET ev == TraceLog[l]
         st == ev.step
         base == IF ev.first THEN [i \in 1..NSlots |-> Nil] ELSE slots
         new == [base EXCEPT ![st.dst] = Build(st, base, reg)]
     IN /\ Enabled(st, base)
        /\ slots' = new
        /\ IF st.op = "Hop" THEN ReportHop(ev, base, new) ELSE ReportBuild(ev, new)
  /\ l' = l + 1
  /\ UNCHANGED <<net, reg>>

TSpec == TInit /\ [][TNext]_tvars

\* every event was consumed
TraceAccepted == TLCGet("stats").diameter - 1 = Len(TraceLog)
=============================================================================
