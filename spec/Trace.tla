-------------------------------- MODULE Trace --------------------------------
(***************************************************************************)
(* Stage 3 of the pipeline (DESIGN 5): validation of a trace recorded from  *)
(* the real code.  Every event is the step the harness executed plus the    *)
(* projection it observed.  The trace specification takes the SAME step     *)
(* with ErrSystem's own Build/Enabled, so the model state advances exactly  *)
(* as the specification says, and compares every recorded field with        *)
(*   - the model's prediction (conformance, kind "conf"), and               *)
(*   - what each property prescribes (verdict, kind "verdict"): the ideal   *)
(*     value, or a relation between two recorded observations.              *)
(* A disagreement never blocks the walk: it is printed as a MISMATCH line   *)
(* and classified by the orchestrator.  An event the specification cannot   *)
(* take at all leaves the trace unfinished and fails the postcondition.     *)
(***************************************************************************)
EXTENDS ErrSystem, TLC, Json

TraceLog == ndJsonDeserialize("trace.ndjson")

VARIABLE l
tvars == <<slots, net, reg, taint, procs, gor, l>>

D == Deviations
\* deviations of the code's encoders recorded as open known findings: the wire
\* conformance check (no verdict) follows the code as it is, the verdicts the ideal
OpenWireDeviations == {"GrpcStatusSendsDescription"}

\* print one mismatch; always TRUE
\* `sites` names where / why: known findings are matched on it
MisS(ev, field, kind, props, sites, exp, got) ==
  PrintT("MISMATCH " \o ToJson([beh |-> ev.beh, l |-> l, op |-> ev.step.op, field |-> field,
                                kind |-> kind, props |-> props, sites |-> sites, exp |-> exp, got |-> got]))
Mis(ev, field, kind, props, exp, got) == MisS(ev, field, kind, props, {}, exp, got)
Chk(ok, ev, field, kind, props, exp, got) == IF ok THEN TRUE ELSE Mis(ev, field, kind, props, exp, got)

\* recorded tree -> shape and text at every node
RECURSIVE RSkel(_)
RECURSIVE RSkelSeq(_)
RSkelSeq(ts) == IF ts = <<>> THEN <<>> ELSE <<RSkel(ts[1])>> \o RSkelSeq(Tail(ts))
RSkel(t) == [text |-> t.text, k |-> t.k, kids |-> RSkelSeq(t.kids)]
RECURSIVE MSkel(_)
RECURSIVE MSkelSeq(_)
MSkelSeq(vs) == IF vs = <<>> THEN <<>> ELSE <<MSkel(vs[1])>> \o MSkelSeq(Tail(vs))
MSkel(v) == [text |-> Text(v), k |-> IF IsWrap(v) THEN "w" ELSE IF IsMulti(v) THEN "m" ELSE "l",
             kids |-> MSkelSeq(v.kids)]

HeldAtU(v) == \E i \in 1..Len(AllNodes(v)) :
                 LET n == AllNodes(v)[i] IN n.ty \in OpaqueTy /\ n.o.fam \in DecodableFam
HasHidden(v) == \E i \in 1..Len(AllNodes(v)) : AllNodes(v)[i].hid # <<>>
HasMulti(v) == \E i \in 1..Len(AllNodes(v)) : IsMulti(AllNodes(v)[i])

\* properties a structural / identity disagreement on value v speaks to
PropsFor(base, v) ==
  base \cup (IF HasHidden(v) THEN {"C07"} ELSE {}) \cup (IF HasMulti(v) THEN {"C13"} ELSE {})

AccFields == {"hints", "details", "fhints", "fdetails", "links", "tags", "domain", "hasAssert",
              "isAssert", "hasLink", "isLink", "hasUnimpl", "isUnimpl", "http", "grpc",
              "notin", "hasHinter", "ifDetail"}

\* compare a recorded accessor observation with a model one
AccDiff(ra, ma) ==
  {f \in AccFields : ra[f] # ma[f]}
  \* (telemetry keys are a set: the same keys, none of them twice)
  \cup (IF SeqToSet(ra.keys) # ma.keys \/ Len(ra.keys) # Cardinality(ma.keys) THEN {"keys"} ELSE {})
  \cup (IF SeqToSet(ra.hastype) # ma.hastype THEN {"hastype"} ELSE {})
\* before / after a hop: every accessor, the OS predicates, the frames of every
\* reportable stack trace and the one-line source (types change: not compared)
RAccDiff(ra, rb) == {f \in AccFields \cup {"keys", "os", "frames", "source"} : ra[f] # rb[f]}

\* GetOneLineSource reports the innermost frame of the innermost stack of the chain
\* (relation between two recorded observations: the one-line source and the top
\* frame of every layer's own reportable stack)
SourceOK(ra) ==
  LET tops == ra.chainTops
      idx == {i \in 1..Len(tops) : tops[i] # ""}
  IN IF idx = {} THEN ra.source = ""
     ELSE ra.source = tops[CHOOSE i \in idx : \A j \in idx : j <= i]

\* ---- outputs declared PII-free; redactable renderings (C03, C06, C12)
\* marker stream: 1 = open, 2 = close, 3 = newline.  Balanced, never nested,
\* balanced within every line.
WellFormed(m) ==
  LET F[i \in 0..Len(m)] ==
        IF i = 0 THEN 0
        ELSE LET d == F[i-1] IN
             IF d < 0 THEN -1
             ELSE CASE m[i] = 1 -> IF d = 0 THEN 1 ELSE -1
                    [] m[i] = 2 -> IF d = 1 THEN 0 ELSE -1
                    [] OTHER    -> IF d = 0 THEN 0 ELSE -1
  IN F[Len(m)] = 0

\* IsAny with one reference is Is (relation between two recorded results, for every
\* reference of the pool; also after hops, where the references are older objects)
ReportAny1(ev) ==
  Chk(ev.obs.any1bad = <<>>, ev, "isany1", "verdict", {"C02", "C08"}, <<>>, ev.obs.any1bad)

Renderings == {"rv", "rpv", "rs"}
ReportOuts(ev, v, tn) ==
  LET x == ev.obs.outs
      uo == tn.u \ tn.s                     \* words that entered through unsafe channels only
      leakR == {r \in Renderings \cup {"rq", "rx"} : SeqToSet(x[r].out) \cap uo # {}}
      leakO == {f \in {"redacted", "safe", "wirerp", "report"} : SeqToSet(x[f]) \cap uo # {}}
      words == UNION ({SeqToSet(x[r].out) \cap uo : r \in Renderings \cup {"rq", "rx"}}
                      \cup {SeqToSet(x[f]) \cap uo : f \in {"redacted", "safe", "wirerp", "report"}})
  IN
  /\ IF leakR \cup leakO = {} THEN TRUE
     ELSE MisS(ev, "leak", "verdict", {"C03"}, leakR \cup leakO, {}, words)
  /\ LET bad == {r \in Renderings : ~WellFormed(x[r].m)} IN
     IF bad = {} THEN TRUE ELSE MisS(ev, "markers", "verdict", {"C06"}, bad, {}, [r \in bad |-> x[r].m])
  \* congruence with the plain rendering: for regular strings (C06's quantifier)
  /\ LET bad == IF tn.mk \/ tn.h \/ tn.dv THEN {} ELSE {r \in Renderings : ~x[r].cong} IN
     IF bad = {} THEN TRUE ELSE MisS(ev, "congruence", "verdict", {"C06"}, bad, {}, bad)
  /\ LET bad == {r \in {"rq", "rx"} : ~x[r].bang} IN
     IF bad = {} THEN TRUE ELSE MisS(ev, "refusal", "verdict", {"C06"}, bad, {}, bad)
  /\ LET miss == IF HeldAtU(v) THEN {} ELSE tn.r \ (SeqToSet(x.report) \cup SeqToSet(x.safe)) IN
     Chk(miss = {}, ev, "retained", "verdict", {"C12"}, {}, miss)

\* ---- formatting verbs and the verbose rendering (C09); Sentry report (C15)
CheckPV(ev, name, pv, v) ==
  LET es == Entries(v, 0, FALSE)
      n == Len(es)
      wantTypes == [i \in 1..n |-> es[i].n.ty]
      wantInd == [i \in 1..n |-> es[i].ind]
      missing == IF pv.nent # n THEN {}
                 ELSE {i \in 1..n : \/ ~(OwnDetailWords(es[i].n) \subseteq SeqToSet(pv.words[i]))
                                    \/ \E d \in OwnDetailStrs(es[i].n) : ~Occurs(d, pv.toks[i])
                                    \/ (OwnDetailLit(es[i].n) # "" /\ OwnDetailLit(es[i].n) \notin SeqToSet(pv.lits[i]))}
  IN
  /\ IF pv.starts THEN TRUE
     ELSE MisS(ev, name \o ".starts", "verdict", {"C09"},
               IF \E i \in 1..Len(Text(v)) : Text(v)[i] = NL THEN {"multiline"} ELSE {"singleline"}, TRUE, FALSE)
  /\ Chk(pv.nent = n, ev, name \o ".entries", "verdict", PropsFor({"C09"}, v), n, pv.nent)
  /\ Chk(pv.depths = wantInd, ev, name \o ".depths", "verdict", PropsFor({"C09"}, v), wantInd, pv.depths)
  /\ Chk(pv.types = wantTypes, ev, name \o ".types", "verdict", {"C09"}, wantTypes, pv.types)
  /\ Chk(missing = {}, ev, name \o ".detail", "verdict", {"C09"}, {}, [i \in missing |-> es[i].n.ty])

ReportFmt(ev, v, tn) ==
  LET f == ev.obs.fmt
      lib == v.ty \in LibTy
      hasPkg == \E i \in 1..Len(AllNodes(v)) : AllNodes(v)[i].ty \in {"pkgFundamental", "pkgWithStack", "pkgWithMessage"}
  IN
  IF tn.h \/ tn.dv THEN TRUE
  ELSE
  /\ Chk(~lib \/ f.badDirect = <<>>, ev, "fmt.direct", "verdict", {"C09"}, <<>>, f.badDirect)
  /\ Chk(f.badFormattable = <<>>, ev, "fmt.formattable", "verdict", {"C09"}, <<>>, f.badFormattable)
  \* (with the + flag on s / q / x / X: the statement lists - # space 0 for these verbs, the
  \* quantifier also +; pkg/errors' own types read + as "verbose" whatever the verb, so the
  \* + variants are judged on values without such a layer)
  /\ Chk(~lib \/ hasPkg \/ f.badDirectPlus = <<>>, ev, "fmt.direct", "verdict", {"C09"}, <<>>, f.badDirectPlus)
  /\ Chk(hasPkg \/ f.badFormattablePlus = <<>>, ev, "fmt.formattable", "verdict", {"C09"}, <<>>, f.badFormattablePlus)
  /\ Chk(~lib \/ f.badVerb = <<>>, ev, "fmt.otherverb", "verdict", {"C09"}, <<>>, f.badVerb)
  /\ Chk(f.badVerbF = <<>>, ev, "fmt.otherverbF", "verdict", {"C09"}, <<>>, f.badVerbF)
  /\ Chk(f.goSyntax, ev, "fmt.gosyntax", "verdict", {"C09"}, TRUE, FALSE)
  /\ Chk(~lib \/ f.goSyntaxD, ev, "fmt.gosyntaxD", "verdict", {"C09"}, TRUE, FALSE)
  /\ IF lib THEN CheckPV(ev, "pv", f.pv, v) ELSE TRUE
  /\ CheckPV(ev, "pvf", f.pvf, v)

ReportRep(ev, v) ==
  LET r == ev.obs.rep
      ns == Cardinality(StackLayers(v, reg))
      want == [hasSource |-> HasSource(v, reg), srcPrefix |-> TRUE, headOK |-> TRUE, ncomp |-> Len(VisNodes(v)),
               nexc |-> IF ns = 0 THEN 1 ELSE ns, synthetic |-> ns = 0, excFrames |-> TRUE, excOwn |-> TRUE,
               excModule |-> TRUE,
               nstack |-> ns, types |-> TypeLines(v, reg), nilNothing |-> TRUE, sentOK |-> TRUE]
      bad == {k \in DOMAIN want : r[k] # want[k]}
  IN Chk(bad = {}, ev, "report", "verdict", PropsFor({"C15"}, v), [k \in bad |-> want[k]], [k \in bad |-> r[k]])

\* ---- drop-in compatibility with the standard library and pkg/errors (C14):
\* relations between the recorded results of both sides
ReportStd(ev, v, sl, own) ==
  LET s == ev.obs.std
      o == ev.obs
      badIs == IF Len(s.is) # Len(o.is) THEN {0} ELSE {j \in 1..Len(s.is) : s.is[j] = "T" /\ o.is[j] # "T"}
      noCauseOnly == \A i \in 1..Len(VisNodes(v)) : VisNodes(v)[i].ty \notin CauseOnlyTy
      badAs == {k \in 1..Len(s.as) :
                  LET a == s.as[k] IN
                  \/ a[1] = -9 \/ a[2] = -9 \/ a[1] = 0 \/ a[2] = 0
                  \* full agreement where every layer exposes Unwrap; below a layer that
                  \* only exposes Cause() the library may find an earlier match
                  \/ (noCauseOnly /\ (a[1] # a[2] \/ (a[1] >= 1 /\ a[3] # 1)))
                  \/ (a[1] >= 1 /\ ~(a[2] >= 1 /\ a[2] <= a[1]))}
      badUnw == (v.ty \notin CauseOnlyTy /\ ~s.unwrapEq)
                \/ (IsMulti(v) /\ v.ty # "uMultiCause" /\ ~(s.stdUnwNil /\ s.libUnwNil))
      \* (a chain that ends at a multi-cause node with Cause() goes on, for pkg/errors and for
      \* the library, into layers the model's chain does not list)
      allCause == \A i \in 1..Len(Chain(v)) : Chain(v)[i].ty \notin NoCauseTy \cup {"uMultiCause"}
      badCause == ~s.causeEq \/ (allCause /\ s.pkgRoot # s.libRoot)
      \* the value's own nodes, as the standard library can reach them, are recognized by it
      off == Len(Concat([i \in 1..(ev.step.dst - 1) |-> AllNodes(sl[i])]))
      flags == StdVisFlags(v, TRUE)
      badOwn == IF ~own THEN {} ELSE {k \in 1..Len(flags) : flags[k] /\ (off + k > Len(s.is) \/ s.is[off + k] # "T")}
  IN
  /\ Chk(badIs = {}, ev, "std.is", "verdict", {"C14"}, {}, badIs)
  /\ Chk(badAs = {}, ev, "std.as", "verdict", PropsFor({"C14"}, v) \ {"C07"}, {}, [k \in badAs |-> s.as[k]])
  /\ Chk(~badUnw, ev, "std.unwrap", "verdict", {"C14"}, TRUE, [eq |-> s.unwrapEq, std |-> s.stdUnwNil, lib |-> s.libUnwNil])
  /\ Chk(~badCause, ev, "std.cause", "verdict", {"C14"}, TRUE, [pkg |-> s.pkgRoot, lib |-> s.libRoot, eq |-> s.causeEq])
  /\ Chk(badOwn = {}, ev, "std.own", "verdict", {"C14"}, {}, badOwn)

\* ---- constructor steps: recorded vs ideal (= model: constructors have no deviation)
\* pool positions of the references held by slots whose recorded value has diverged from
\* the model through a reported transfer defect (no prediction involves them)
DivergedRefs(sl, tall, dst) ==
  UNION {LET off == Len(Concat([k \in 1..(i - 1) |-> AllNodes(sl[k])]))
         IN (off + 1)..(off + Len(AllNodes(sl[i]))) : i \in {k \in 1..NSlots : k # dst /\ tall[k].dv}}

ReportBuild(ev, new, tn, tall) ==
  LET st == ev.step
      v == new[st.dst]
      o == ev.obs
  IN
  /\ Chk(o.panic = "", ev, "panic", "verdict", {"C08", "C10"}, "", o.panic)
  /\ Chk(o.nil = IsNil(v), ev, "nil", "verdict", {"C10"}, IsNil(v), o.nil)
  \* (a panic inside an observer leaves nothing else to judge)
  /\ IF o.nil \/ IsNil(v) \/ o.panic # "" THEN TRUE
     ELSE
     /\ ReportOuts(ev, v, tn)
     /\ ReportAny1(ev)
     /\ IF tn.dv THEN TRUE ELSE ReportStd(ev, v, new, TRUE)
     /\ IF "fmt" \in DOMAIN o THEN ReportFmt(ev, v, tn) /\ ReportRep(ev, v) ELSE TRUE
     \* text is predicted for regular strings only (C10); otherwise conformance
     /\ IF tn.h \/ tn.dv THEN TRUE
        ELSE Chk(RSkel(o.tree) = MSkel(v), ev, "skel", "verdict", PropsFor({"C10"}, v), MSkel(v), RSkel(o.tree))
     /\ IF tn.h \/ tn.dv THEN TRUE ELSE Chk(o.tree = TreeOf(v, reg), ev, "tree", "conf", {}, TreeOf(v, reg), o.tree)
     \* conformance of the encoders: the wire message of the value as Enc predicts it
     /\ IF tn.h \/ tn.dv THEN TRUE
        ELSE LET w == WAbs(Enc(v, reg, D \cup OpenWireDeviations)) IN Chk(o.wire = w, ev, "wire", "conf", {}, w, o.wire)
     \* (values are predicted for regular strings; for hostile strings only the
     \* predicates of ReportOuts and the relations of ReportHop give verdicts)
     /\ IF tn.h \/ tn.dv THEN TRUE
        ELSE LET d == AccDiff(o.acc, Acc(v)) IN
             Chk(d = {}, ev, "acc", "verdict", PropsFor({"C19"}, v), [f \in d |-> Acc(v)[f]], [f \in d |-> o.acc[f]])
     /\ Chk(SourceOK(o.acc), ev, "source", "verdict", {"C16"}, o.acc.chainTops, o.acc.source)
     /\ IF tn.h \/ tn.dv THEN TRUE
        ELSE LET spec == IsSpecVec(v, new, reg)
                 skip == DivergedRefs(new, tall, st.dst) IN
             Chk(Len(o.is) = Len(spec) /\ \A j \in 1..Len(spec) : j \in skip \/ o.is[j] = spec[j],
                 ev, "is", "verdict", PropsFor({"C08"}, v), spec, o.is)
     \* IsAny is the disjunction; Is(nil, r) is r == nil
     \* (also against the references held by the other slots only, in both orders:
     \* there no reference is the value itself)
     /\ LET any == IF \E i \in 1..Len(o.is) : o.is[i] = "T" THEN "T" ELSE "F"
            off == Len(Concat([i \in 1..(st.dst - 1) |-> AllNodes(new[i])]))
            own == (off + 1)..(off + Len(AllNodes(v)))
            anyO == IF \E i \in (1..Len(o.is)) \ own : o.is[i] = "T" THEN "T" ELSE "F"
            want == [any |-> any, none |-> "F", nilL |-> "F", nilR |-> "F", nilnil |-> "T", anyNil |-> "F",
                     anyOther |-> anyO, anyOtherRev |-> anyO]
        IN Chk(o.isx = want, ev, "isx", "verdict", {"C08"}, want, o.isx)

\* where two recorded trees first diverge, bottom-up: families (at the origin)
\* of the layers whose own text differs although their causes agree
RECURSIVE DiffSites(_, _)
RECURSIVE DiffSitesSeq(_, _)
DiffSitesSeq(ps, qs) == IF ps = <<>> THEN {} ELSE DiffSites(ps[1], qs[1]) \cup DiffSitesSeq(Tail(ps), Tail(qs))
\* (hidden sub-trees are compared where both sides can see the same number of them: an
\* opaque barrier keeps its hidden error inside the payload)
DiffSites(p, q) ==
  IF Len(p.kids) # Len(q.kids) \/ p.k # q.k THEN {"shape:" \o p.fam}
  ELSE LET below == DiffSitesSeq(p.kids, q.kids)
                    \cup (IF Len(p.hid) = Len(q.hid) THEN DiffSitesSeq(p.hid, q.hid) ELSE {}) IN
       IF below # {} THEN below ELSE IF p.text # q.text THEN {p.fam} ELSE {}

RECURSIVE FamTree(_)
RECURSIVE FamTreeSeq(_)
FamTreeSeq(ts) == IF ts = <<>> THEN <<>> ELSE <<FamTree(ts[1])>> \o FamTreeSeq(Tail(ts))
FamTree(t) == [fam |-> t.fam, ext |-> t.ext, kids |-> FamTreeSeq(t.kids)]

\* positions of isrev whose local match depended on an identity-comparing Is
\* method of a foreign type (the exception stated in C02)
IdExempt(base, dst, e) ==
  LET others == [j \in 1..(NSlots - 1) |-> IF j < dst THEN j ELSE j + 1]
      refs == VisNodes(e)
  IN [j \in 1..(NSlots - 1) |->
        [k \in 1..Len(refs) |-> ~IsNil(base[others[j]]) /\ MatchViaIdentityIsMethod(base[others[j]], refs[k])]]

RevOK(pre, post, ex) ==
  /\ Len(pre) = Len(post)
  /\ \A j \in 1..Len(pre) :
        /\ Len(pre[j]) = Len(post[j])
        /\ \A k \in 1..Len(pre[j]) : pre[j][k] = post[j][k] \/ (j <= Len(ex) /\ k <= Len(ex[j]) /\ ex[j][k])

\* ---- hops: relational verdicts on the two recorded observations, conformance
\* of the received value against the model
ReportHop(ev, base, new, tn) ==
  LET st == ev.step
      v == new[st.dst]
      o == ev.obs
      p == ev.pre
      toK == "*" \in SeqToSet(st.known)
      fromU == HeldAtU(base[st.src[1]])      \* the sender did not know all the types
      knowing == toK /\ ~fromU                \* a hop between knowing processes
      PT == IF knowing THEN "C01" ELSE "C04"
  IN
  /\ Chk(o.panic = "", ev, "panic", "verdict", {"C01", "C04", "C05"}, "", o.panic)
  /\ Chk(o.nil = IsNil(v), ev, "nil", "conf", {}, IsNil(v), o.nil)
  /\ IF o.nil \/ IsNil(v) \/ p.nil \/ o.panic # "" \/ p.panic # "" THEN TRUE
     ELSE
     /\ ReportOuts(ev, v, tn)
     /\ ReportAny1(ev)
     /\ IF tn.dv THEN TRUE ELSE ReportStd(ev, v, base, FALSE)
     /\ IF "fmt" \in DOMAIN o /\ ~tn.dv THEN ReportFmt(ev, v, tn) /\ ReportRep(ev, v) ELSE TRUE
     /\ LET sites == IF tn.h \/ tn.dv THEN {} ELSE DiffSites(p.tree, o.tree) IN
        IF sites = {} THEN TRUE
        ELSE MisS(ev, "hop.skel", "verdict", PropsFor({PT}, v), sites, RSkel(p.tree), RSkel(o.tree))
     /\ IF tn.h \/ tn.dv THEN TRUE ELSE Chk(o.tree = TreeOf(v, reg), ev, "tree", "conf", {}, TreeOf(v, reg), o.tree)
     \* type names are kept (the family / extension of every layer)
     /\ Chk(FamTree(o.tree) = FamTree(p.tree), ev, "hop.fam", "verdict", {PT, "C02"}, FamTree(p.tree), FamTree(o.tree))
     \* annotations: kept between knowing processes (an unknowing process cannot
     \* see them; a knowing process after it sees them again: hop.via)
     /\ LET d == IF knowing THEN RAccDiff(o.acc, p.acc) ELSE {} IN
        Chk(d = {}, ev, "hop.acc", "verdict", {"C11"}, [f \in d |-> p.acc[f]], [f \in d |-> o.acc[f]])
     \* Is is invariant.  Causes the model can name: "ismethod" = the match rested
     \* on a layer's own Is method only and the model says the method is gone
     \* (type not reconstituted); "markopaque" = an explicit Mark travelled to a
     \* process that cannot decode it.  Anything else is "other".
     /\ LET rp == RefPool(base)
            e0 == base[st.src[1]]
            \* (at the receiver, or already at the sender: a later process that knows
            \* withMark honours the mark again, which changes the answers back)
            OpaqueMarkIn(x) == \E i \in 1..Len(AllNodes(x)) :
                                  AllNodes(x)[i].ty = "opaqueWrapper" /\ AllNodes(x)[i].o.fam = "withMark"
            markOpaque == OpaqueMarkIn(v) \/ OpaqueMarkIn(e0)
            Cause(j) == IF j = 0 \/ j > Len(rp) \/ o.is[j] # B2S(IsSpec(v, rp[j], reg)) THEN "other"
                        ELSE IF OnlyViaMethod(e0, rp[j], reg) THEN "ismethod"
                        ELSE IF markOpaque THEN "markopaque" ELSE "other"
            bad == IF Len(o.is) # Len(p.is) THEN {0} ELSE {j \in 1..Len(o.is) : o.is[j] # p.is[j]}
            \* the text of some layer changed in transfer: identity follows the text
            txt == {"text:" \o x : x \in DiffSites(p.tree, o.tree)}
        IN IF bad = {} THEN TRUE
           ELSE MisS(ev, "hop.is", IF tn.h \/ tn.dv THEN "conf" ELSE "verdict", IF tn.h \/ tn.dv THEN {} ELSE {"C02"},
                     IF txt # {} THEN txt ELSE {Cause(j) : j \in bad}, p.is, o.is)
     /\ LET ex == IdExempt(base, st.dst, base[st.src[1]])
            refs == VisNodes(v)
            others == [j \in 1..(NSlots - 1) |-> IF j < st.dst THEN j ELSE j + 1]
            refs0 == VisNodes(base[st.src[1]])
            markOpaque == \/ \E i \in 1..Len(refs) : refs[i].ty = "opaqueWrapper" /\ refs[i].o.fam = "withMark"
                          \/ \E i \in 1..Len(refs0) : refs0[i].ty = "opaqueWrapper" /\ refs0[i].o.fam = "withMark"
            okShape == /\ Len(p.isrev) = Len(o.isrev)
                       /\ \A j \in 1..Len(p.isrev) : Len(p.isrev[j]) = Len(o.isrev[j])
            bad == IF ~okShape THEN {<<0, 0>>}
                   ELSE {jk \in UNION {{<<j, k>> : k \in 1..Len(p.isrev[j])} : j \in 1..Len(p.isrev)} :
                           /\ p.isrev[jk[1]][jk[2]] # o.isrev[jk[1]][jk[2]]
                           /\ ~(jk[1] <= Len(ex) /\ jk[2] <= Len(ex[jk[1]]) /\ ex[jk[1]][jk[2]])}
            Cause(jk) == IF jk[1] = 0 \/ jk[2] > Len(refs) THEN "other"
                         ELSE LET x == base[others[jk[1]]] IN
                              IF o.isrev[jk[1]][jk[2]] # B2S(IsSpec(x, refs[jk[2]], reg)) THEN "other"
                              ELSE IF markOpaque THEN "markopaque" ELSE "other"
            txt == {"text:" \o x : x \in DiffSites(p.tree, o.tree)}
        IN IF bad = {} THEN TRUE
           ELSE MisS(ev, "hop.isrev", IF tn.h \/ tn.dv THEN "conf" ELSE "verdict", IF tn.h \/ tn.dv THEN {} ELSE {"C02"},
                     IF txt # {} THEN txt ELSE {Cause(jk) : jk \in bad}, p.isrev, o.isrev)
     \* no drift: from the first hop on, re-encoding reproduces the message received
     \* (exactly between knowing processes from the second hop on; otherwise up to the
     \* reportable payload of barrier layers, which embeds a rendering of the hidden
     \* error as the encoding process sees it)
     \* (where this hop changes the text of a layer - reported as hop.skel with the sites -
     \* a knowing layer above it re-derives its own message from the changed text: the
     \* drift is reported with the same sites)
     /\ LET ok == IF o.hop.n >= 2 /\ knowing THEN o.hop.same ELSE o.hop.sameModBarrier
            sites == DiffSites(p.tree, o.tree) IN
        IF ok \/ tn.dv THEN TRUE ELSE MisS(ev, "hop.drift", "verdict", {PT}, sites, TRUE, FALSE)
     \* safe details per layer (C11 leaves out barrier / secondary layers; an
     \* unknowing process must keep all of them as received)
     /\ LET n == Len(p.safe)
            keep == IF fromU THEN {}
                    ELSE {i \in 1..n : p.safe[i].tn \notin {"barrierErr", "withSecondaryError"}}
            \* between knowing processes: identical; at an unknowing process: nothing lost
            \* (it also shows what the origin's encoder declared reportable)
            bad == IF fromU THEN {} ELSE IF Len(o.safe) # n THEN {0}
                   ELSE {i \in keep : IF toK THEN o.safe[i].d # p.safe[i].d
                                       ELSE ~(SeqToSet(p.safe[i].d) \subseteq SeqToSet(o.safe[i].d))}
        IN Chk(bad = {}, ev, "hop.safe", "verdict", IF knowing THEN {"C11"} ELSE {"C04"},
               [i \in bad \ {0} |-> p.safe[i]], [i \in bad \ {0} |-> o.safe[i]])
     \* via an unknowing process = directly
     /\ LET bad == {f \in {"viaTree", "viaAcc", "viaIs", "viaVerbose", "viaSafe"} : ~o.hop[f]} IN
        Chk(bad = {}, ev, "hop.via", "verdict", {"C04"}, {}, bad)
     /\ IF tn.h \/ tn.dv THEN TRUE
        ELSE LET d == AccDiff(o.acc, Acc(v)) IN
             Chk(d = {}, ev, "acc", "conf", {}, [f \in d |-> Acc(v)[f]], [f \in d |-> o.acc[f]])
     /\ IF tn.h \/ tn.dv THEN TRUE
        ELSE LET code == IsVec(v, base, reg, D) IN Chk(o.is = code, ev, "is", "conf", {}, code, o.is)

\* ---- decoding is total (C05): a non-nil error, no panic in DecodeError nor in
\* any observer applied to the result
ReportFault(ev) ==
  LET o == ev.obs IN
  /\ Chk(o.panic = "", ev, "decode.panic", "verdict", {"C05"}, "", o.panic)
  /\ Chk(o.panic # "" \/ ~o.nil, ev, "decode.nil", "verdict", {"C05"}, FALSE, o.nil)
  /\ Chk(o.obsPanics = <<>>, ev, "observer.panic", "verdict", {"C05"}, <<>>, o.obsPanics)

\* ---- stacks and package domains are attributed to the right caller (C16)
ReportStack(ev) ==
  LET o == ev.obs.stack
      api == ev.step.s[1]
      d == ev.step.n
      row == ApiTable({})[api]
      want == Prescribed(api, d, {})
  IN
  /\ Chk(ev.obs.panic = "" /\ o.ok, ev, "stack.call", "verdict", {"C16"}, TRUE, [panic |-> ev.obs.panic, ok |-> o.ok])
  /\ IF row.kind = "stack"
     THEN /\ Chk(o.frame = want, ev, "stack.frame", "verdict", {"C16"}, want, o.frame)
          /\ Chk(o.frameLine = o.wantLine, ev, "stack.line", "verdict", {"C16"}, o.wantLine, o.frameLine)
          /\ Chk(o.source = [fn |-> want, line |-> o.wantLine, file |-> PkgOf(want) \o ".go"], ev, "stack.source",
                 "verdict", {"C16"}, [fn |-> want, line |-> o.wantLine, file |-> PkgOf(want) \o ".go"], o.source)
     ELSE Chk(o.domain = PkgOf(want), ev, "stack.domain", "verdict", {"C16"}, PkgOf(want), o.domain)
  \* conformance of the transcribed arithmetic
  /\ LET code == Captured(api, d, D) IN
     Chk((IF row.kind = "stack" THEN o.frame ELSE o.domain) = (IF row.kind = "stack" THEN code ELSE PkgOf(code)),
         ev, "stack.table", "conf", {}, code, o)

\* ---- through the gRPC interceptors (C20): relation between the error received
\* through the real interceptors and the same error transferred directly (both
\* recorded), and the status code visible to callers
CodeNum(a) == IF a = <<>> THEN 2
              ELSE LET ks == {k \in (0..16) \cup {404} : a[1] = "n" \o ToString(k)} IN
                   IF ks = {} THEN 2 ELSE CHOOSE k \in ks : TRUE
ReportGrpc(ev, base, new) ==
  LET st == ev.step
      e == base[st.src[1]]
      v == new[st.dst]
      o == ev.obs
      g == o.grpc
      wantCode == IF IsNil(e) THEN 0 ELSE IF e.ty = "grpcStatus" THEN 5 ELSE CodeNum(CodeOf(e, "withGrpcCode"))
      bad == {f \in {"treeEq", "accEq", "isEq", "verboseEq", "safeEq", "nilEq"} : ~g[f]}
  IN
  /\ Chk(o.panic = "", ev, "grpc.panic", "verdict", {"C20"}, "", o.panic)
  /\ IF bad = {} THEN TRUE ELSE MisS(ev, "grpc.equal", "verdict", {"C20"}, bad, {}, bad)
  /\ Chk(g.rawCode = wantCode, ev, "grpc.code", "verdict", {"C20"}, wantCode, g.rawCode)
  /\ Chk(o.nil = IsNil(v), ev, "nil", "conf", {}, IsNil(v), o.nil)
  /\ IF o.nil \/ IsNil(v) THEN TRUE
     ELSE Chk(o.tree = TreeOf(v, reg), ev, "tree", "conf", {}, TreeOf(v, reg), o.tree)

\* ---- concurrent observers (C18): every result of every repetition equals the
\* result of the operation executed alone; no data race reported; no panic
ReportConc(ev) ==
  LET st == ev.step c == ev.obs.conc IN
  /\ Chk(ev.obs.panic = "" /\ c.panic = "", ev, "conc.panic", "verdict", {"C18"}, "", [h |-> ev.obs.panic, g |-> c.panic])
  /\ IF st.op = "CBegin" THEN TRUE
     ELSE /\ Chk(c.iters >= 1, ev, "conc.ran", "conf", {}, TRUE, c.iters)
          /\ Chk(c.bad = 0, ev, "conc.result", "verdict", {"C18"}, 0, c)
          /\ Chk(c.races = 0, ev, "conc.race", "verdict", {"C18"}, 0, c)

\* ---- type renames across code versions (C17)
ReportMig(ev, r) ==
  LET st == ev.step o == ev.obs.mig IN
  IF st.op = "ProcInit" THEN TRUE
  ELSE IF st.op = "RegMig"
  THEN Chk(o.panic = r.panic, ev, "mig.duplicate", "verdict", {"C17"}, r.panic, o.panic)
  ELSE LET want == MigObs(st.dst, r.sl, r.pr) IN
       /\ Chk(ev.obs.panic = "", ev, "mig.panic", "verdict", {"C17"}, "", ev.obs.panic)
       \* encoded under the original name / shown under the original family
       /\ Chk(o.fam = want.fam, ev, "mig.family", "verdict", {"C17"}, want.fam, o.fam)
       \* decoded to the local type
       /\ Chk(o.ty = want.ty, ev, "mig.type", "verdict", {"C17"}, want.ty, o.ty)
       \* Is across versions
       /\ Chk(o.is = want.is, ev, "mig.is", "verdict", {"C17"}, want.is, o.is)

TInit == Init /\ l = 1

TNext ==
  /\ l <= Len(TraceLog)
  /\ LET ev == TraceLog[l]
         st == ev.step
         base == IF ev.first THEN [i \in 1..NSlots |-> Nil] ELSE slots
         tbase == IF ev.first THEN [i \in 1..NSlots |-> NoTaint] ELSE taint
         pbase == IF ev.first THEN NoProcs ELSE procs
     IN
     IF st.op \in MigOps
     THEN LET r == MigApply(st, base, pbase) IN
          /\ r.ok
          /\ slots' = r.sl /\ procs' = r.pr /\ taint' = tbase /\ gor' = Idle
          /\ ReportMig(ev, r)
     ELSE IF st.op \in ConcOps
     THEN LET r == ConcApply(st, base, IF ev.first THEN Idle ELSE gor) IN
          /\ r.ok
          /\ slots' = base /\ procs' = pbase /\ taint' = tbase /\ gor' = r.gr
          /\ ReportConc(ev)
     ELSE
     LET new == [base EXCEPT ![st.dst] = Build(st, base, reg)]
         tn == TaintOf(st, base, tbase, new[st.dst])
         \* a hop whose recorded text diverges (reported as hop.skel) suspends predictions
         diverged == /\ st.op = "Hop" /\ ~ev.obs.nil /\ ~ev.pre.nil
                     /\ DiffSites(ev.pre.tree, ev.obs.tree) # {}
     IN /\ Enabled(st, base)
        /\ slots' = new
        /\ procs' = pbase
        /\ gor' = IF ev.first THEN Idle ELSE gor
        /\ taint' = [tbase EXCEPT ![st.dst] = [tn EXCEPT !.dv = tn.dv \/ diverged]]
        /\ IF st.op = "Hop" THEN ReportHop(ev, base, new, tn)
           ELSE IF st.op = "Grpc" THEN ReportGrpc(ev, base, new)
           ELSE IF st.op \in {"DecodeFault", "DecodeFuzz"} THEN ReportFault(ev)
           ELSE IF st.op = "StackCall" THEN ReportStack(ev)
           ELSE ReportBuild(ev, new, tn, tbase)
  /\ l' = l + 1
  /\ UNCHANGED <<net, reg>>

TSpec == TInit /\ [][TNext]_tvars

\* every event was consumed
TraceAccepted == TLCGet("stats").diameter - 1 = Len(TraceLog)
=============================================================================
