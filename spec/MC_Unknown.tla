----------------------------- MODULE MC_Unknown ------------------------------
(* Family Unknown (DESIGN 4.3): hops through processes that know only a      *)
(* subset of the type families of the value.  Serves C04, C02, C13.         *)
EXTENDS MCGen
OpsV == {"GoNew", "Sentinel", "Errno", "New", "Newf", "NewfW", "Unimplemented",
         "AssertionFailedf", "ULeaf", "GrpcStatus", "Wrap", "Wrapf", "WithMessage", "WithStack", "WithHint",
         "WithDetail", "WithSafeDetails", "WithTelemetry", "WithDomain", "WithIssueLink",
         "WithContextTags", "WithAssertionFailure", "Mark", "WithSecondaryError",
         "Handled", "HandledWithMessage", "HandledInDomain", "WrapWithHTTPCode",
         "WrapWithGrpcCode", "GoWrap", "PkgWithMessage", "OsPathError",
         "OsSyscallError", "UWrap", "Join", "GoJoin", "GoWrap2", "Hop", "HopU"}
ShapesV == {<<"w1">>, <<"w1", "SEP", "w2">>}
Shapes2V == {<<"w2">>}
=============================================================================
