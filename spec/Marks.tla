-------------------------------- MODULE Marks --------------------------------
(***************************************************************************)
(* Error identity: type families, type marks, error marks, Is / IsAny /    *)
(* Mark / As.  IsImpl transcribes markers.Is as written; IsSpec is the      *)
(* documented equivalence, written declaratively (property C08).            *)
(* `reg` is the process's backward rename registry: a function from new     *)
(* family name to original family name (errbase.backwardRegistry).          *)
(* `D` is the set of named deviations of the code from the ideal design.   *)
(***************************************************************************)
EXTENDS Values

\* family name under which a value of catalogue type ty is encoded/compared
FamOfTy(ty, reg) == IF ty \in DOMAIN reg THEN reg[ty] ELSE ty

Fam(v, reg) == IF v.ty \in OpaqueTy THEN v.o.fam ELSE FamOfTy(v.ty, reg)
\* original Go type name (for reports); not affected by renames
\* (os.PathError is an alias of io/fs.PathError, which the library's built-in
\* migration encodes under the family os.PathError)
TypeName(v) == IF v.ty \in OpaqueTy THEN v.o.tn ELSE IF v.ty = "osPathError" THEN "fsPathError" ELSE v.ty
\* extension of the type mark (errbase.TypeKeyMarker): the domain
Ext(v) == IF v.ty \in OpaqueTy THEN v.o.ext
          ELSE IF v.ty \in {"withDomain", "uKeyWrap"} THEN v.s
          ELSE IF v.ty = "uKeyLeaf" THEN v.a[1] ELSE <<>>

TypeMark(v, reg) == [f |-> Fam(v, reg), x |-> Ext(v)]

MarkOf(v, reg) ==
  IF v.ty = "withMark" THEN v.mk[1]
  ELSE LET c == Chain(v) IN
       [msg |-> Text(v), types |-> [i \in 1..Len(c) |-> TypeMark(c[i], reg)]]

\* markers.equalMarks.  Result "T", "F" or "P" (panic: index out of range).
EqualMarks(m1, m2, D) ==
  IF m1.msg # m2.msg THEN "F"
  ELSE IF "EqualMarksNoLenCheck" \in D
       THEN \* for i, t := range m1.types { if !t.Equals(m2.types[i]) return false }
            LET n1 == Len(m1.types)
                n2 == Len(m2.types)
                firstDiff == {i \in 1..n1 : i <= n2 /\ m1.types[i] # m2.types[i]}
                k == IF firstDiff = {} THEN n1 + 1
                     ELSE CHOOSE i \in firstDiff : \A j \in firstDiff : i <= j
            IN IF k <= n2 /\ k <= n1 THEN "F"
               ELSE IF n1 > n2 THEN "P" ELSE "T"
       ELSE IF m1.types = m2.types THEN "T" ELSE "F"

---------------------------------------------------------------------------
(* An error's own Is(error) bool method.                                   *)

ErrnoClass(n) == CASE n = "ENOENT" -> "ID_osErrNotExist"
                   [] n = "EACCES" -> "ID_osErrPermission"
                   [] n = "EPERM"  -> "ID_osErrPermission"
                   [] n = "EEXIST" -> "ID_osErrExist"
                   [] OTHER -> "ID_none"

\* identity tag of a sentinel object (lost by transfer: decoding allocates)
IdTag(r) == IF r.ty = "goErr" /\ r.a # <<>> THEN r.a[1][1] ELSE "ID_"

SaysIs(c, r) ==
  CASE c.ty = "errno"     -> IdTag(r) = ErrnoClass(c.a[1][1])
    [] c.ty \in {"uIsLeaf", "uMultiIs"} -> ~IsNil(r) /\ Text(r) = c.a[1]       \* value-comparing Is method
    [] c.ty = "uIsIdLeaf" -> IdTag(r) = "ID_user"                \* identity-comparing Is method
    [] OTHER -> FALSE

\* TRUE iff Is(e, r) can only hold through an Is method comparing identity
MatchViaIdentityIsMethod(e, r) ==
  \E i \in 1..Len(VisNodes(e)) :
     LET c == VisNodes(e)[i] IN c.ty \in {"errno", "uIsIdLeaf"} /\ SaysIs(c, r)

---------------------------------------------------------------------------
(* markers.Is as written: loop 1 (identity / Is method / multi-cause       *)
(* recursion) over the single-cause chain, then loop 2 (marks) over the    *)
(* same chain.  Identity is subsumed by mark equality (same object => same *)
(* mark), so it is not modelled separately.  Result "T" / "F" / "P".        *)

RECURSIVE IsImpl(_, _, _, _)
RECURSIVE AnyIs(_, _, _, _)
\* first non-"F" result over the sequence, in order ("P" aborts)
AnyIs(vs, r, reg, D) ==
  IF vs = <<>> THEN "F"
  ELSE LET x == IsImpl(vs[1], r, reg, D) IN IF x # "F" THEN x ELSE AnyIs(Tail(vs), r, reg, D)

RECURSIVE Loop1(_, _, _, _)
Loop1(ch, r, reg, D) ==
  IF ch = <<>> THEN "F"
  ELSE IF SaysIs(ch[1], r) THEN "T"
  ELSE LET x == AnyIs(UnwrapN(ch[1]), r, reg, D) IN
       IF x # "F" THEN x ELSE Loop1(Tail(ch), r, reg, D)

RECURSIVE Loop2(_, _, _, _)
Loop2(ch, rm, reg, D) ==
  IF ch = <<>> THEN "F"
  ELSE LET x == EqualMarks(MarkOf(ch[1], reg), rm, D) IN
       IF x # "F" THEN x ELSE Loop2(Tail(ch), rm, reg, D)

IsImpl(e, r, reg, D) ==
  IF IsNil(r) THEN (IF IsNil(e) THEN "T" ELSE "F")
  ELSE IF IsNil(e) THEN "F"
  ELSE LET x == Loop1(Chain(e), r, reg, D) IN
       IF x # "F" THEN x ELSE Loop2(Chain(e), MarkOf(r, reg), reg, D)

\* The documented equivalence (C08): some visible layer of e is identical to
\* r, says so through its own Is method, or has the same message and the
\* same full sequence of (type, extension) marks.
Equiv(c, r, reg) == SaysIs(c, r) \/ MarkOf(c, reg) = MarkOf(r, reg)
IsSpec(e, r, reg) ==
  IF IsNil(r) THEN IsNil(e)
  ELSE ~IsNil(e) /\ \E i \in 1..Len(VisNodes(e)) : Equiv(VisNodes(e)[i], r, reg)

\* The match of e against r rests on Is methods only: no visible layer of e has
\* r's mark.  Such a match cannot survive where the layer's type is not
\* reconstituted (an opaque value has no methods), C02.
OnlyViaMethod(e, r, reg) ==
  /\ ~IsNil(e) /\ ~IsNil(r)
  /\ \A i \in 1..Len(VisNodes(e)) : MarkOf(VisNodes(e)[i], reg) # MarkOf(r, reg)

B2S(b) == IF b THEN "T" ELSE "F"

\* IsAny(e, r1..rn) is the disjunction
IsAnySpec(e, rs, reg) == \E i \in 1..Len(rs) : IsSpec(e, rs[i], reg)

\* errors.Mark
MarkV(e, r, reg) ==
  IF IsNil(e) THEN Nil
  ELSE [V("withMark", <<>>, <<>>, <<e>>, <<>>) EXCEPT !.mk = <<MarkOf(r, reg)>>]

---------------------------------------------------------------------------
(* errors.As: first node in traversal order (chain, branches depth-first)  *)
(* whose type is in the target class.  Result: position in VisNodes or 0.   *)
AsPos(e, tys) ==
  LET ns == VisNodes(e)
      hits == {i \in 1..Len(ns) : ns[i].ty \in tys}
  IN IF hits = {} THEN 0 ELSE CHOOSE i \in hits : \A j \in hits : i <= j
=============================================================================
