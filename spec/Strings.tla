------------------------------- MODULE Strings -------------------------------
(***************************************************************************)
(* Strings of the error library, abstracted to token sequences.            *)
(* A token is a short ASCII name: words "w1".."w99", structural tokens     *)
(* SEP (": "), NL, SP, PCT, QT, hostile tokens MO MC RM NUL BAD, and        *)
(* "L_xxx" literals standing for constant texts produced by the library    *)
(* or the Go runtime (the harness maps them from the live values).         *)
(* The concretisation used by the harness makes byte-level prefix/suffix   *)
(* relations coincide with the token-level ones (DESIGN 3.1).               *)
(***************************************************************************)
EXTENDS Naturals, Sequences, FiniteSets, TLC

SEP == "SEP"
NL  == "NL"
SP  == "SP"

HostileToks == {"MO", "MC", "RM", "NUL", "BAD"}

IsSuffix(suf, s) ==
  /\ Len(suf) <= Len(s)
  /\ SubSeq(s, Len(s) - Len(suf) + 1, Len(s)) = suf

IsPrefixOf(p, s) ==
  /\ Len(p) <= Len(s)
  /\ SubSeq(s, 1, Len(p)) = p

\* Regular text (properties C01, C09, C10 quantify over it): non-empty, no
\* marker / NUL / invalid bytes, every newline interior and isolated.
Regular(s) ==
  /\ s # <<>>
  /\ \A i \in 1..Len(s) : s[i] \notin HostileToks
  /\ s[1] # NL /\ s[Len(s)] # NL
  /\ \A i \in 1..(Len(s) - 1) : ~(s[i] = NL /\ s[i+1] = NL)

\* errbase.extractPrefix on token sequences.
\* Result: [s |-> message, full |-> TRUE iff FullMessage].
ExtractPrefix(full, cause) ==
  IF IsSuffix(cause, full)
  THEN LET p == SubSeq(full, 1, Len(full) - Len(cause)) IN
       IF p = <<>> THEN [s |-> <<>>, full |-> FALSE]
       ELSE IF p[Len(p)] = SEP THEN [s |-> SubSeq(p, 1, Len(p) - 1), full |-> FALSE]
       ELSE [s |-> full, full |-> TRUE]
  ELSE [s |-> full, full |-> TRUE]

\* "pfx: rest", or rest alone for an empty prefix.
WithPfx(p, rest) == IF p = <<>> THEN rest ELSE p \o <<SEP>> \o rest

RECURSIVE JoinWith(_, _)
JoinWith(ss, sep) ==
  IF ss = <<>> THEN <<>>
  ELSE IF Len(ss) = 1 THEN ss[1]
  ELSE ss[1] \o <<sep>> \o JoinWith(Tail(ss), sep)

RECURSIVE Concat(_)
Concat(ss) == IF ss = <<>> THEN <<>> ELSE ss[1] \o Concat(Tail(ss))

\* the word tokens "w1" .. "w999" (everything else is structure or a literal)
WordSet == {"w" \o ToString(k) : k \in 1..999}
\* The words (content tokens) of a token sequence.
IsWord(t) == t \in WordSet
WordsOf(s) == {s[i] : i \in {j \in 1..Len(s) : IsWord(s[j])}}

\* First line of a text.
RECURSIVE FirstLine(_)
FirstLine(s) == IF s = <<>> \/ s[1] = NL THEN <<>> ELSE <<s[1]>> \o FirstLine(Tail(s))

SeqToSet(s) == {s[i] : i \in 1..Len(s)}

\* Remove later duplicates, keeping first occurrences.
RECURSIVE DedupAcc(_, _)
DedupAcc(s, seen) ==
  IF s = <<>> THEN <<>>
  ELSE IF s[1] \in seen THEN DedupAcc(Tail(s), seen)
       ELSE <<s[1]>> \o DedupAcc(Tail(s), seen \cup {s[1]})
Dedup(s) == DedupAcc(s, {})

RECURSIVE FilterNonEmpty(_)
FilterNonEmpty(s) ==
  IF s = <<>> THEN <<>>
  ELSE IF s[1] = <<>> THEN FilterNonEmpty(Tail(s)) ELSE <<s[1]>> \o FilterNonEmpty(Tail(s))

RECURSIVE SetToSeq(_)
SetToSeq(S) == IF S = {} THEN <<>> ELSE LET x == CHOOSE y \in S : TRUE IN <<x>> \o SetToSeq(S \ {x})

RECURSIVE Reverse(_)
Reverse(s) == IF s = <<>> THEN <<>> ELSE Reverse(Tail(s)) \o <<s[1]>>
=============================================================================
