------------------------------ MODULE MC_Stacks ------------------------------
(* Family Stacks (C16): every exported stack-capturing or domain-computing   *)
(* function x depth 0..3, called through four non-inlinable helper           *)
(* functions in four packages.                                              *)
EXTENDS MCGen

SNext ==
  \/ Finish
  \/ /\ Len(hist) < MaxD
     /\ \E api \in Apis(Deviations) : \E d \in (IF ApiTable(Deviations)[api].hasDepth THEN 0..3 ELSE {0}) :
          \E deep \in {E, <<<<"deep">>>>} :     \* also below forty more frames
          LET st == Step("StackCall", 1, E, <<api>>, deep, E, d, E) IN
          Do(st) /\ hist' = Append(hist, st) /\ nw' = nw /\ fin' = FALSE
SSpec == GInit /\ [][SNext]_vars

\* C16 on the model: the skip arithmetic as transcribed attributes every
\* capture to the prescribed caller
InvC16 == AttributionOK(Deviations)

OpsV == {}
ShapesV == {}
Shapes2V == {}
=============================================================================
