---------------------------- MODULE MC_Concurrent ----------------------------
(* Family Concurrent (C18): a value is built (locally, possibly decoded),    *)
(* then up to three goroutines begin and end observer operations on it in    *)
(* every interleaving (the shape fixes which calls overlap), then a storm    *)
(* of many free-running goroutines.  The harness is built with -race.       *)
EXTENDS MCGen

CONSTANTS BuildD,      \* number of constructor steps before the observers start
          COps,        \* observer operations the goroutines choose from
          Storm        \* number of goroutines of the final storm

TakeC(st) == DoConc(st) /\ hist' = Append(hist, st) /\ nw' = nw /\ fin' = FALSE
Active == {g \in 1..NGor : gor[g].op # ""}
Begun == Cardinality({i \in 1..Len(hist) : hist[i].op = "CBegin"})
Stormed == \E i \in 1..Len(hist) : hist[i].op = "CStorm"

CFinish == Stormed /\ ~fin /\ fin' = TRUE /\ UNCHANGED <<slots, net, reg, taint, procs, gor, hist, nw>>

CNext ==
  \/ CFinish
  \/ /\ ~Stormed /\ ~fin
     /\ \/ \* 1. build the shared value in slot 1 (a second one in slot 2 serves as reference)
           Len(hist) < BuildD /\ (Step1(slots) \/ StepHop(slots))
        \/ \* 2. goroutines begin (in index order) and end in every interleaving
           /\ Len(hist) >= BuildD /\ ~IsNil(slots[1])
           /\ \/ /\ Begun < NGor
                 /\ \E op \in COps : TakeC(Step("CBegin", 1, <<1, 2>>, <<op>>, E, E, Begun + 1, E))
              \/ \E g \in Active : TakeC(Step("CEnd", 1, <<1, 2>>, E, E, E, g, E))
              \/ /\ Begun = NGor /\ Active = {}
                 /\ TakeC(Step("CStorm", 1, <<1, 2>>, E, E, E, Storm, E))
CSpec == GInit /\ [][CNext]_vars

\* observers never mutate the shared values (action property)
ObserversDontMutate == [][(\E g \in 1..NGor : gor'[g] # gor[g]) => slots' = slots]_vars

OpsV == {"GoNew", "New", "Newf", "Wrap", "Wrapf", "WithHint", "WithDetail", "WithTelemetry", "WithDomain",
         "WithContextTags", "WithSafeDetails", "WithIssueLink", "Handled", "HandledWithMessage",
         "WithSecondaryError", "Mark", "Join", "GoWrap", "WithStack", "AssertionFailedf", "Hop"}
ShapesV == {<<"w1">>, <<"w1", "SEP", "w2">>}
Shapes2V == {<<"w2">>}
COpsQuick == {"fmtPlusV", "safeDetails", "encode", "report"}
COpsAll == ObserverOps
=============================================================================
