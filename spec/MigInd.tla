------------------------------- MODULE MigInd --------------------------------
(* Unbounded check of the rename registry with Apalache (inductive invariant): *)
(* whatever renames are registered, in whatever order and however many, over   *)
(* a fixed set of names,                                                       *)
(*   - the table stays a function,                                             *)
(*   - a family name is a fixed point of the table (looking it up again        *)
(*     changes nothing),                                                       *)
(*   - both names of every accepted rename are encoded under the same family   *)
(*     (C17: identity across versions does not depend on registration order).  *)
(* Checked as  IndInit => IndInv  (length 0) and  IndInv /\ Next => IndInv'    *)
(* (length 1); TLC covers the same operator, bound to the code, in MC_Migrate. *)
EXTENDS Integers, FiniteSets, MigPure

CONSTANT
  \* @type: Set(Str);
  Names

VARIABLES
  \* the backward registry
  \* @type: Set(<<Str, Str>>);
  tbl,
  \* the accepted renames so far, <<previous name, new name>>
  \* @type: Set(<<Str, Str>>);
  done

Register(prev, new) ==
  /\ tbl' = Reg(tbl, prev, new)
  /\ done' = IF Accepted(tbl, prev, new) THEN done \cup {<<prev, new>>} ELSE done

Init == tbl = {} /\ done = {}
Next == \E prev \in Names, new \in Names : Register(prev, new)

Functional == \A p \in tbl, q \in tbl : p[1] = q[1] => p[2] = q[2]
Idempotent == \A p \in tbl : Fam(tbl, p[2]) = p[2]
SameFamily == \A d \in done : Fam(tbl, d[1]) = Fam(tbl, d[2])
IndInv == Functional /\ Idempotent /\ SameFamily
IndInit == /\ tbl \in SUBSET (Names \X Names)
           /\ done \in SUBSET (Names \X Names)
           /\ IndInv

\* a consequence, checked from IndInit at length 0
FamIdem == \A k \in Names : Fam(tbl, Fam(tbl, k)) = Fam(tbl, k)
=============================================================================
