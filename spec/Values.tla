------------------------------- MODULE Values --------------------------------
(***************************************************************************)
(* Abstract error values: finite trees.  Every value is a record with the  *)
(* same fields so that TLC can compare any two of them:                     *)
(*   ty    catalogue type name (a row of the type catalogue below)          *)
(*   s     main string (message, prefix, hint, domain ...) as tokens        *)
(*   a     auxiliary strings (sequence of token sequences)                  *)
(*   kids  visible causes: 0 (leaf), 1 (wrapper) or n (multi-cause node)    *)
(*   hid   hidden sub-trees (barrier payload, secondary error)              *)
(*   mk    <<>> or <<mark>>, the explicit mark carried by withMark          *)
(*   o     for opaque values: the wire node received (minus causes)         *)
(***************************************************************************)
EXTENDS Strings

NoO == [fam |-> "", tn |-> "", ext |-> <<>>, full |-> FALSE, msg |-> <<>>,
        rp |-> <<>>, pay |-> <<>>]

V(ty, s, a, kids, hid) ==
  [ty |-> ty, s |-> s, a |-> a, kids |-> kids, hid |-> hid, mk |-> <<>>, o |-> NoO]

Nil == V("nil", <<>>, <<>>, <<>>, <<>>)
IsNil(v) == v.ty = "nil"

---------------------------------------------------------------------------
(* The type catalogue (DESIGN Appendix B).                                 *)

\* Wrappers whose Error() is the cause's text.
AnnotTy == {"withStack", "withHint", "withDetail", "withSafeDetails", "withTelemetry",
            "withDomain", "withIssueLink", "withContext", "withAssertionFailure",
            "withMark", "withSecondaryError", "withHTTPCode", "withGrpcCode",
            "pkgWithStack", "uAnnotWrap", "uKeyWrap"}
\* Wrappers whose Error() is "s: cause" (cause alone when s is empty).
PrefixTy == {"withPrefix", "uWrapU", "uWrapC", "uWrapUC", "uRegWrap"}
\* Wrappers whose Error() is always "s: cause", even for an empty s.
AlwaysPrefixTy == {"pkgWithMessage", "osPathError", "osLinkError", "osSyscallError", "netOpError"}
\* Wrappers that own the full message (s is the whole text).
FullTy   == {"withNewMessage", "goWrapError", "uWrapFull", "uRegWrapFull"}
\* Leaves (s is the whole text).
LeafTy   == {"leafError", "goErr", "ctxDeadline", "errno", "opaqueErrno", "pkgFundamental",
             "unimplementedError", "barrierErr", "uPtrLeaf", "uValLeaf", "uValPtrLeaf", "uRegLeaf",
             "uProtoLeaf", "uIsLeaf", "uIsIdLeaf", "uSafeMsgLeaf", "uSafeDetLeaf", "uKeyLeaf", "uMaybe", "grpcStatus",
             "gogoStatus", "runtimeErr", "opaqueLeaf", "decoded"}
\* Multi-cause nodes: text = branch texts joined by NL ...
JoinTy   == {"joinError", "goJoin"}
\* ... or own text.
MultiOwnTy == {"goWrapErrors", "opaqueLeafCauses", "uMulti", "uMultiIs", "uRegMulti", "uMultiCause"}
OpaqueTy == {"opaqueLeaf", "opaqueLeafCauses", "opaqueWrapper"}

WrapTy  == AnnotTy \cup PrefixTy \cup AlwaysPrefixTy \cup FullTy \cup {"opaqueWrapper"}
MultiTy == JoinTy \cup MultiOwnTy
AllTy   == WrapTy \cup MultiTy \cup LeafTy

\* "uMaybe" is a user type that is sometimes a leaf, sometimes a wrapper
IsMulti(v) == v.ty \in MultiTy
IsWrap(v)  == v.ty \in WrapTy \/ (v.ty = "uMaybe" /\ Len(v.kids) = 1)
IsLeaf(v)  == ~IsWrap(v) /\ ~IsMulti(v)

\* Types that only expose Cause(), invisible to the standard library.
CauseOnlyTy == {"uWrapC", "uMultiCause"}
\* Wrapper types without a Cause() method, invisible to pkg/errors.Cause.
NoCauseTy == {"goWrapError", "osPathError", "osLinkError", "osSyscallError", "netOpError", "uWrapU", "uWrapFull", "uRegWrap", "uRegWrapFull",
              "uAnnotWrap", "uKeyWrap", "uMaybe"}

\* flags aligned with AllNodes(v): the node is reachable by the standard library's
\* traversal (Unwrap methods only) and comparable with ==
RECURSIVE StdVisFlags(_, _)
RECURSIVE StdVisFlagsSeq(_, _)
StdVisFlagsSeq(vs, vis) == IF vs = <<>> THEN <<>> ELSE StdVisFlags(vs[1], vis) \o StdVisFlagsSeq(Tail(vs), vis)
StdVisFlags(v, vis) ==
  IF IsNil(v) THEN <<>>
  ELSE <<vis /\ v.ty # "uValLeaf">> \o StdVisFlagsSeq(v.kids, vis /\ v.ty \notin CauseOnlyTy)
       \o StdVisFlagsSeq(v.hid, FALSE)

---------------------------------------------------------------------------
(* Error() text.                                                           *)

RECURSIVE Text(_)
RECURSIVE TextsOf(_)
TextsOf(vs) == IF vs = <<>> THEN <<>> ELSE <<Text(vs[1])>> \o TextsOf(Tail(vs))
Text(v) ==
  CASE v.ty \in AnnotTy  -> Text(v.kids[1])
    [] v.ty \in PrefixTy -> WithPfx(v.s, Text(v.kids[1]))
    [] v.ty \in AlwaysPrefixTy -> v.s \o <<SEP>> \o Text(v.kids[1])
    [] v.ty = "opaqueWrapper" -> IF v.o.full THEN v.s ELSE WithPfx(v.s, Text(v.kids[1]))
    [] v.ty \in JoinTy   -> JoinWith(TextsOf(v.kids), NL)
    [] v.ty = "uMaybe"   -> IF v.kids = <<>> THEN v.s ELSE v.s \o <<SEP>> \o Text(v.kids[1])
    [] OTHER             -> v.s

---------------------------------------------------------------------------
(* Traversal.                                                              *)

\* errbase.UnwrapOnce: the single cause, Nil for leaves and multi-cause nodes.
Unwrap1(v) == IF IsWrap(v) THEN v.kids[1] ELSE Nil
\* errbase.UnwrapMulti
UnwrapN(v) == IF IsMulti(v) THEN v.kids ELSE <<>>

RECURSIVE Root(_)
Root(v) == IF IsWrap(v) THEN Root(v.kids[1]) ELSE v

\* the single-cause chain starting at v, outermost first
RECURSIVE Chain(_)
Chain(v) == IF IsNil(v) THEN <<>> ELSE <<v>> \o (IF IsWrap(v) THEN Chain(v.kids[1]) ELSE <<>>)

\* all visible nodes, pre-order
RECURSIVE VisNodes(_)
RECURSIVE VisNodesSeq(_)
VisNodesSeq(vs) == IF vs = <<>> THEN <<>> ELSE VisNodes(vs[1]) \o VisNodesSeq(Tail(vs))
VisNodes(v) == IF IsNil(v) THEN <<>> ELSE <<v>> \o VisNodesSeq(v.kids)

\* all nodes including hidden sub-trees: node, visible kids, hidden
RECURSIVE AllNodes(_)
RECURSIVE AllNodesSeq(_)
AllNodesSeq(vs) == IF vs = <<>> THEN <<>> ELSE AllNodes(vs[1]) \o AllNodesSeq(Tail(vs))
AllNodes(v) == IF IsNil(v) THEN <<>> ELSE <<v>> \o AllNodesSeq(v.kids) \o AllNodesSeq(v.hid)

\* nodes reachable only through hidden links
HiddenRoots(v) == Concat([i \in 1..Len(VisNodes(v)) |-> VisNodes(v)[i].hid])

RECURSIVE Depth(_)
RECURSIVE MaxDepthSeq(_)
MaxDepthSeq(vs) == IF vs = <<>> THEN 0
                   ELSE LET d == Depth(vs[1]) m == MaxDepthSeq(Tail(vs)) IN IF d > m THEN d ELSE m
Depth(v) == IF IsNil(v) THEN 0
            ELSE 1 + (LET a == MaxDepthSeq(v.kids) b == MaxDepthSeq(v.hid) IN IF a > b THEN a ELSE b)

NodeCount(v) == Len(AllNodes(v))
=============================================================================
