------------------------------ MODULE MC_Marks -------------------------------
(* Family Marks (DESIGN 4.3): pairs of independently built, near-equal trees *)
(* over a two-word pool, so that references differ from candidates in one    *)
(* message, one type, one domain, or one extra / missing layer; types that   *)
(* are not comparable, that are sometimes a leaf and sometimes a wrapper,    *)
(* and that have their own Is method.  Serves C08, C02, C14.                *)
EXTENDS MCGen
OpsV == {"Copy", "GoNew", "Sentinel", "Errno", "New", "ULeaf", "UIs", "Wrap", "WithMessage", "WithStack",
         "WithDomain", "Mark", "Handled", "GoWrap", "PkgWithMessage", "UWrap", "Join", "GoJoin",
         "WithHint", "Hop"}
\* restricted instance: chains whose type sequence is a strict prefix of another's
OpsPrefix == {"GoNew", "ULeaf", "UWrap", "WithStack", "Mark"}
\* restricted instance: explicit marks whose reference chain is longer / shorter than the error's
OpsMark == {"GoNew", "New", "WithStack", "WithMessage", "Mark", "Hop"}
ShapesPrefix == {<<"w2">>, <<"w1", "SEP", "w2">>}
ShapesV == {<<"w1">>, <<"w1", "SEP", "w2">>}
Shapes2V == {<<"w1">>, <<"w2">>}
=============================================================================
