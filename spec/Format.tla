------------------------------- MODULE Format --------------------------------
(***************************************************************************)
(* The structure of the verbose rendering (%+v) and of the Sentry report    *)
(* (errbase/format_error.go, report/report.go), at the level the properties *)
(* C09 and C15 speak: which layers have an entry, in which order, with      *)
(* which indentation, which Go types the "Error types" line names, which    *)
(* detail of each wrapper its entry must show; how many exceptions and      *)
(* composition lines the report has and what the "error types" extra lists. *)
(***************************************************************************)
EXTENDS Wire

\* types defined by the library: formatting them directly is the library's business
LibTy == {"leafError", "withPrefix", "withNewMessage", "withStack", "withHint", "withDetail",
          "withSafeDetails", "withTelemetry", "withDomain", "withIssueLink", "unimplementedError",
          "withContext", "withAssertionFailure", "withMark", "withSecondaryError", "barrierErr",
          "joinError", "withHTTPCode", "withGrpcCode", "opaqueLeaf", "opaqueLeafCauses", "opaqueWrapper"}

\* Entries of %+v: outermost layer first; the branches of a multi-cause node
\* last branch first (reversed post-order); indentation by depth below a
\* multi-cause node.
RECURSIVE Entries(_, _, _)
RECURSIVE EntriesRev(_, _, _)
EntriesRev(vs, d, um) ==
  IF vs = <<>> THEN <<>> ELSE EntriesRev(Tail(vs), d, um) \o Entries(vs[1], d, um)
Entries(v, d, um) ==
  <<[n |-> v, ind |-> IF um /\ d >= 1 THEN d - 1 ELSE 0]>> \o EntriesRev(v.kids, d + 1, um \/ IsMulti(v))

\* the words of a wrapper's own detail, which its entry must show
OwnDetailWords(v) ==
  CASE v.ty \in {"withHint", "withDetail", "withDomain"} -> WordsOf(v.s)
    [] v.ty \in {"withIssueLink", "unimplementedError", "withTelemetry", "withContext"} ->
         UNION {WordsOf(v.a[i]) : i \in 1..Len(v.a)}
    [] OTHER -> {}
\* the strings of a wrapper's own detail, each of which its entry must show verbatim
OwnDetailStrs(v) ==
  CASE v.ty \in {"withHint", "withDetail"} -> {v.s} \ {<<>>}
    [] v.ty \in {"withIssueLink", "unimplementedError"} -> {v.a[i] : i \in 1..Len(v.a)} \ {<<>>}
    [] OTHER -> {}
\* s occurs in t as a contiguous subsequence
Occurs(s, t) == \E i \in 0..(Len(t) - Len(s)) : SubSeq(t, i + 1, i + Len(s)) = s

\* the detail literal its entry must show (a catalogue name, mapped by the harness
\* from the live text) or "" for none
OwnDetailLit(v) ==
  IF v.ty \in {"withStack", "withAssertionFailure", "withHTTPCode", "withGrpcCode", "withSecondaryError", "withMark"}
  THEN v.ty ELSE ""

\* ---- Sentry report
StackFams == {"withStack", "pkgWithStack", "pkgFundamental"}
HasStack(n, reg) == Fam(n, reg) \in StackFams
StackLayers(v, reg) == {i \in 1..Len(VisNodes(v)) : HasStack(VisNodes(v)[i], reg)}
HasSource(v, reg) == \E i \in 1..Len(Chain(v)) : HasStack(Chain(v)[i], reg)
\* the "error types" extra: innermost layer first
TypeLines(v, reg) ==
  LET ns == Reverse(VisNodes(v)) IN
  [i \in 1..Len(ns) |->
     <<TypeName(ns[i]), IF TypeName(ns[i]) = Fam(ns[i], reg) THEN "*" ELSE Fam(ns[i], reg)>> \o Ext(ns[i])]
=============================================================================
