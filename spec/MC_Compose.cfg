SPECIFICATION GSpec
CONSTANTS
  NSlots = 2
  Deviations = {}
  MaxD = 3
  Ops <- OpsV
  Shapes <- ShapesV
  Shapes2 <- Shapes2V
  NilOps = FALSE
  MaxNodes = 12
  EmitAll = TRUE
INVARIANTS Emit DesignInv
CHECK_DEADLOCK FALSE
