SPECIFICATION TSpec
CONSTANTS
  NSlots = 2
  Deviations = {}
POSTCONDITION TraceAccepted
CHECK_DEADLOCK FALSE
