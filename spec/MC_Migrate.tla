----------------------------- MODULE MC_Migrate ------------------------------
(* Family Migrate (C17): three processes built from different versions of    *)
(* the code - the original type (v1), a rename (v2), another rename of the   *)
(* same original (v2q), a chain of two (v3) or three (v4) renames registered   *)
(* in any order, or no knowledge of the type at all (v0) - exchange errors of the    *)
(* renamed lineage and compare them.                                        *)
EXTENDS MCGen

\* (vBx: a build that has its own, unrelated type under the name a later version chose
\* for the rename - it declares no rename and must not take the lineage's errors for its own)
Kinds == {"v1", "v2", "v2q", "v3", "v4", "v0", "vBx"}
\* types a build links, its local type, the renames it declares
TysOf(k) == CASE k = "v1" -> <<"uRenA">> [] k = "v2" -> <<"uRenB">> [] k = "v2q" -> <<"uRenQ">>
              [] k = "v3" -> <<"uRenC">> [] k = "v4" -> <<"uRenD">> [] k = "vBx" -> <<"uRenB">> [] OTHER -> <<>>
Decl(k) == CASE k = "v2" -> {<<"uRenA", "uRenB">>} [] k = "v2q" -> {<<"uRenA", "uRenQ">>}
             [] k = "v3" -> {<<"uRenA", "uRenB">>, <<"uRenB", "uRenC">>}
             [] k = "v4" -> {<<"uRenA", "uRenB">>, <<"uRenB", "uRenC">>, <<"uRenC", "uRenD">>} [] OTHER -> {}
KindOf(p) == hist[p].a[1][1]
\* renames process p has still to register
Pending(p) == {d \in Decl(KindOf(p)) : d[2] \notin DOMAIN procs.migs[p]}
Ready == Len(hist) >= NProcs /\ \A p \in 1..NProcs : Pending(p) = {}

TakeM(st) == DoMig(st) /\ hist' = Append(hist, st) /\ nw' = nw /\ fin' = FALSE
MStep(op, n, dst, src, s, a) == Step(op, dst, src, s, a, E, n, E)

\* index of the step within the scenario played once every process is set up
ScenarioPos == Cardinality({i \in 1..Len(hist) : hist[i].op \in {"MkLocal", "Xfer", "Probe"}})
LinksTy(p) == procs.tys[p] # {}
LocalTy(p) == CHOOSE t \in procs.tys[p] : TRUE
\* the build links a type of the lineage (vBx links an unrelated type of the same name)
Lin(p) == LinksTy(p) /\ KindOf(p) # "vBx"

\* The registry operator Apalache proves unboundedly correct (MigInd, over sets of
\* pairs) is the one this module explores and the traces bind to the code
\* (ErrSystem!RegisterMigration, over functions): equal on every table over the lineage.
MP == INSTANCE MigPure
LNames == {"uRenA", "uRenB", "uRenC", "uRenD", "uRenQ"}
PairsOf(t) == {<<k, t[k]>> : k \in DOMAIN t}
SmallTables == UNION {[S -> LNames] : S \in SUBSET {"uRenA", "uRenB", "uRenC", "uRenD"}}
ASSUME \A t \in SmallTables : \A prev \in LNames : \A new \in LNames :
         LET r == RegisterMigration(t, prev, new, {}) IN
         /\ PairsOf(r.tbl) = MP!Reg(PairsOf(t), prev, new)
         /\ r.panic = ~MP!Accepted(PairsOf(t), prev, new)

\* ... and the function form TLAPS proves correct for any set of names (MigProof)
MF == INSTANCE MigFun
ASSUME \A t \in SmallTables : \A prev \in LNames : \A new \in LNames \ DOMAIN t :
         RegisterMigration(t, prev, new, {}).tbl = MF!RegTbl(t, prev, new)

CONSTANT Dup    \* TRUE: also try to register an already registered target again

Src3 == IF Lin(3) THEN 3 ELSE 2
ScenarioDone == Ready /\ (~Lin(1) \/ ScenarioPos >= 8 \/ (ScenarioPos = 3 /\ ~Lin(Src3)))
FinishM == ScenarioDone /\ ~fin /\ fin' = TRUE /\ UNCHANGED <<slots, net, reg, taint, procs, gor, hist, nw>>

MNext ==
  \/ FinishM
  \/ /\ Len(hist) < MaxD /\ ~fin
     /\ \/ \* 1. declare the three builds
           /\ Len(hist) < NProcs
           /\ \E k \in Kinds : TakeM(MStep("ProcInit", Len(hist) + 1, 1, E, TysOf(k), <<<<k>>>>))
        \/ \* 2. each registers its renames, in any order
           /\ Len(hist) >= NProcs /\ ~Ready
           /\ LET p == CHOOSE q \in 1..NProcs : Pending(q) # {} /\ \A r \in 1..NProcs : Pending(r) # {} => q <= r IN
              \E d \in Pending(p) : TakeM(MStep("RegMig", p, 1, E, d, E))
        \/ \* 2a. a process may use its type between two of its registrations (slot 3) ...
           /\ Len(hist) >= NProcs /\ ~Ready /\ IsNil(slots[3])
           /\ LET p == CHOOSE q \in 1..NProcs : Pending(q) # {} /\ \A r \in 1..NProcs : Pending(r) # {} => q <= r IN
              /\ LinksTy(p) /\ Pending(p) # Decl(KindOf(p))
              /\ TakeM(MStep("MkLocal", p, 3, E, <<"w3">>, <<<<LocalTy(p)>>>>))
        \/ \* 2b. ... and looks at it again once all its renames are registered
           /\ Len(hist) >= NProcs /\ ~IsNil(slots[3]) /\ ScenarioPos = 1
           /\ Pending(procs.own[3]) = {}
           /\ TakeM(MStep("Probe", procs.own[3], 3, E, E, E))
        \/ \* 2'. registering the same target twice is rejected
           /\ Dup /\ Ready /\ ScenarioPos = 0
           /\ ~\E i \in 1..Len(hist) : hist[i].op = "RegMig" /\ \E j \in 1..(i-1) : hist[j] = hist[i]
           /\ \E p \in 1..NProcs : \E d \in Decl(KindOf(p)) : TakeM(MStep("RegMig", p, 1, E, d, E))
        \/ \* 3. the scenario: an error built at 1 travels 1 -> 2 -> 3; an equal one is
           \*    built at 3 (at 2 and sent on, when 3 does not link the type); both compared at 3
           /\ Ready /\ Lin(1)
           /\ LET pos == ScenarioPos
                  src3 == IF Lin(3) THEN 3 ELSE 2 IN
              CASE pos = 0 -> TakeM(MStep("MkLocal", 1, 1, E, <<"w1">>, <<<<LocalTy(1)>>>>))
                [] pos = 1 -> TakeM(MStep("Xfer", 12, 1, <<1>>, E, E))
                [] pos = 2 -> TakeM(MStep("Xfer", 23, 1, <<1>>, E, E))
                [] pos = 3 -> Lin(src3) /\ TakeM(MStep("MkLocal", src3, 2, E, <<"w1">>, <<<<LocalTy(src3)>>>>))
                [] pos = 4 -> IF src3 = 3 THEN TakeM(MStep("Probe", 3, 1, E, E, E))
                              ELSE TakeM(MStep("Xfer", 23, 2, <<2>>, E, E))
                [] pos = 5 -> TakeM(MStep("Probe", 3, 1, E, E, E))
                [] pos = 6 -> TakeM(MStep("MkLocal", 1, 3, E, <<"w2">>, <<<<LocalTy(1)>>>>))
                [] pos = 7 -> TakeM(MStep("Xfer", 13, 3, <<3>>, E, E))
                [] OTHER -> FALSE
MSpec == GInit /\ [][MNext]_vars

\* C17 on the model: whatever the versions and the registration order, every
\* lineage value is encoded under the original name, and two lineage values
\* with the same message held by the same process are the same error
InvC17 ==
  /\ Len(hist) >= NProcs =>
       \A p \in 1..NProcs : Pending(p) = {} => \A t \in DOMAIN procs.migs[p] : procs.migs[p][t] = "uRenA"
  /\ \A i, j \in 1..NSlots :
       (~IsNil(slots[i]) /\ ~IsNil(slots[j]) /\ procs.own[i] = procs.own[j] /\ Pending(procs.own[i]) = {}
        /\ Len(hist) >= NProcs /\ KindOf(procs.own[i]) # "vBx")
       => (IsIn(slots[i], slots[j], procs.own[i], procs) <=> slots[i].s = slots[j].s)


OpsV == {}
ShapesV == {}
Shapes2V == {}
=============================================================================
