------------------------------ MODULE MC_Faults ------------------------------
(* Family Faults (DESIGN 8, C05): for every type key registered with a       *)
(* decoder in the LIVE registries (dumped by the harness through the verif   *)
(* hook into registry.json, so a decoder added later is swept without        *)
(* touching the specification): payload fault x detail fault x message-type  *)
(* value x position in a carrier chain; plus seeded random wire trees.       *)
EXTENDS MCGen

Registry == JsonDeserialize("registry.json")

Forms == [leaf |-> SeqToSet(Registry.leaf), wrap |-> SeqToSet(Registry.wrap), multi |-> SeqToSet(Registry.multi)]
PayKinds == SeqToSet(Registry.pay)
Positions == {"top", "underWrapper", "multiCause", "inBarrier", "inSecondary"}
NDet == {"n0", "n1", "n3"}
\* type keys without decoder that the library may treat specially by name, and
\* reportable strings in the style of a printed stack (well formed and not)
Named == [leaf |-> SeqToSet(Registry.namedLeaf), wrap |-> SeqToSet(Registry.namedWrap), multi |-> {}]
StackDet == {"s1", "s2", "s3", "s4", "s5", "s6"}
MTypes == {"n0", "n1", "n7"}

CONSTANTS NFuzz      \* number of fuzz seeds

\* (nested quantifiers rather than one big set of steps: TLC would normalise the set)
TakeF(st) == Do(st) /\ hist' = Append(hist, st) /\ nw' = nw /\ fin' = FALSE
FNext ==
  \/ Finish
  \/ /\ Len(hist) < MaxD
     /\ \/ \E f \in {"leaf", "wrap", "multi"} : \E k \in Forms[f] : \E p \in PayKinds : \E pos \in Positions :
          \E d \in NDet : \E m \in MTypes :
               TakeF(Step("DecodeFault", 1, E, <<k>>, <<<<f>>, <<p>>, <<pos>>, <<d>>, <<m>>>>, E, 0, E))
        \/ \E f \in {"leaf", "wrap", "multi"} : \E k \in Forms[f] \cup Named[f] : \E pos \in Positions :
          \E d \in StackDet \cup (IF k \in Named[f] THEN NDet ELSE {}) : \E p \in {"none", "badany"} : \E m \in {"n0", "n1"} :
               TakeF(Step("DecodeFault", 1, E, <<k>>, <<<<f>>, <<p>>, <<pos>>, <<d>>, <<m>>>>, E, 0, E))
        \/ \E n \in 1..NFuzz : TakeF(Step("DecodeFuzz", 1, E, E, E, E, n, E))
FSpec == GInit /\ [][FNext]_vars

\* design level: the model's decoder is total on every faulty message (a
\* missing guard in the model would be a TLC evaluation error)
DecTotal == \A i \in 1..NSlots : slots[i].ty \in AllTy \cup {"nil"}

OpsV == {}
ShapesV == {}
Shapes2V == {}
=============================================================================
