------------------------------ MODULE MC_Hidden ------------------------------
(* Family Hidden: every hiding constructor over annotated hidden sub-trees.  *)
(* Serves C07.                                                              *)
EXTENDS MCGen
OpsV == {"Copy", "GoNew", "Sentinel", "Errno", "New", "Newf", "NewfW", "Wrapf", "Unimplemented", "WithHint", "WithDetail",
         "WithTelemetry", "WithDomain", "WithIssueLink", "WithContextTags", "WithAssertionFailure",
         "WrapWithHTTPCode", "WrapWithGrpcCode", "Mark", "WithSecondaryError", "CombineErrors",
         "Handled", "Opaque", "HandledWithMessage", "HandledInDomain", "EnsureNotInDomain", "HandledInDomainWithMessage",
         "HandleAsAssertionFailure", "NewAssertionErrorWithWrappedErrf", "Hop"}
ShapesV == {<<"w1">>, <<"w3">>}
Shapes2V == {<<"w2">>}
=============================================================================
