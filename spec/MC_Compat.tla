------------------------------ MODULE MC_Compat ------------------------------
(* Family Compat (C14): mixed trees of library, standard-library, pkg/errors  *)
(* and user types (Unwrap only, Cause only, both, multi-cause, own Is).       *)
EXTENDS MCGen
OpsV == {"UMultiCause", "GoNew", "Sentinel", "CtxDeadline", "Errno", "New", "PkgNew", "ULeaf", "UIs", "Wrap", "WithMessage",
         "WithStack", "WithHint", "WithDomain", "Mark", "WithSecondaryError", "Handled", "GoWrap",
         "PkgWithMessage", "PkgWithStack", "PkgWrap", "OsPathError", "OsSyscallError", "UWrap", "Join",
         "GoJoin", "GoWrap2", "Hop"}
ShapesV == {<<"w1">>, <<"w1", "SEP", "w2">>}
Shapes2V == {<<"w2">>}
=============================================================================
