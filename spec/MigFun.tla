------------------------------- MODULE MigFun --------------------------------
(* The rename registry as a function (new name -> original name), written   *)
(* exactly as ErrSystem!RegisterMigration without deviation; MigProof proves *)
(* its inductive invariant with TLAPS for any set of names, an ASSUME in     *)
(* MC_Migrate makes TLC check that it is the operator explored there.        *)

FamP(ty, t) == IF ty \in DOMAIN t THEN t[ty] ELSE ty

RegTbl(t, prev, new) ==
  LET root == IF prev \in DOMAIN t THEN t[prev] ELSE prev
      t1 == [k \in DOMAIN t \cup {new} |-> IF k = new THEN root ELSE t[k]]
  IN [k \in DOMAIN t1 |-> IF t1[k] = new THEN root ELSE t1[k]]
=============================================================================
