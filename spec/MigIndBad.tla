------------------------------ MODULE MigIndBad ------------------------------
(* Non-vacuity of MigInd: the registry as the code had it before the repair   *)
(* (deviation MigrationNoPrevLookup: the previous name is not looked up) must  *)
(* fail the inductive step.                                                   *)
EXTENDS Integers, FiniteSets, MigPure

CONSTANT
  \* @type: Set(Str);
  Names

VARIABLES
  \* @type: Set(<<Str, Str>>);
  tbl,
  \* @type: Set(<<Str, Str>>);
  done

\* @type: (Set(<<Str, Str>>), Str, Str) => Set(<<Str, Str>>);
RegOld(t, prev, new) ==
  IF new \in Dom(t) THEN t
  ELSE LET t1 == t \cup {<<new, prev>>}
       IN {<<p[1], IF p[2] = new THEN prev ELSE p[2]>> : p \in t1}

Register(prev, new) ==
  /\ tbl' = RegOld(tbl, prev, new)
  /\ done' = IF Accepted(tbl, prev, new) THEN done \cup {<<prev, new>>} ELSE done

Init == tbl = {} /\ done = {}
Next == \E prev \in Names, new \in Names : Register(prev, new)
Functional == \A p \in tbl, q \in tbl : p[1] = q[1] => p[2] = q[2]
Idempotent == \A p \in tbl : Fam(tbl, p[2]) = p[2]
SameFamily == \A d \in done : Fam(tbl, d[1]) = Fam(tbl, d[2])
IndInv == Functional /\ Idempotent /\ SameFamily
IndInit == /\ tbl \in SUBSET (Names \X Names)
           /\ done \in SUBSET (Names \X Names)
           /\ IndInv
=============================================================================
