------------------------------- MODULE MC_Grpc -------------------------------
(* Family Grpc (C20): errors returned by a handler behind the real           *)
(* UnaryServerInterceptor and received through the real                      *)
(* UnaryClientInterceptor, compared with the direct transfer.               *)
EXTENDS MCGen
OpsV == {"GoNew", "Sentinel", "Errno", "New", "Newf", "NewfW", "PkgNew", "Unimplemented", "GrpcStatus",
         "AssertionFailedf", "ULeaf", "Wrap", "Wrapf", "WithMessage", "WithStack", "WithHint",
         "WithDetail", "WithSafeDetails", "WithTelemetry", "WithDomain", "WithIssueLink",
         "WithContextTags", "WithAssertionFailure", "Mark", "WithSecondaryError",
         "Handled", "HandledWithMessage", "HandledInDomain", "WrapWithHTTPCode",
         "WrapWithGrpcCode", "GoWrap", "PkgWithMessage", "PkgWrap", "OsPathError", "UWrap",
         "Join", "GoJoin", "GoWrap2", "Grpc"}
\* restricted instance: status codes attached at several levels (the most recent wins,
\* codes.Unknown included), over plain and status leaves
OpsCode == {"GoNew", "New", "GrpcStatus", "Wrap", "WithHint", "WrapWithGrpcCode", "WrapWithHTTPCode", "Grpc"}
\* restricted instance: every status code a handler can attach
OpsAllCodes == {"GoNew", "New", "Wrap", "WrapWithGrpcCode", "AllGrpcCodes", "Grpc"}
ShapesOne == {<<"w1">>}
ShapesV == {<<"w1">>, <<"w1", "SEP", "w2">>, <<"w2", "NL", "w1">>, <<"L_big">>, <<"w1", "L_big">>}
Shapes2V == {<<"w2">>}
=============================================================================
