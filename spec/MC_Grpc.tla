------------------------------- MODULE MC_Grpc -------------------------------
(* Family Grpc (C20): errors returned by a handler behind the real           *)
(* UnaryServerInterceptor and received through the real                      *)
(* UnaryClientInterceptor, compared with the direct transfer.               *)
EXTENDS MCGen
OpsV == {"GoNew", "Sentinel", "Errno", "New", "Newf", "NewfW", "PkgNew", "Unimplemented", "GrpcStatus",
         "AssertionFailedf", "ULeaf", "Wrap", "Wrapf", "WithMessage", "WithStack", "WithHint",
         "WithDetail", "WithSafeDetails", "WithTelemetry", "WithDomain", "WithIssueLink",
         "WithContextTags", "WithAssertionFailure", "Mark", "WithSecondaryError",
         "Handled", "HandledWithMessage", "HandledInDomain", "WrapWithHTTPCode",
         "WrapWithGrpcCode", "GoWrap", "PkgWithMessage", "PkgWrap", "OsPathError", "UWrap",
         "Join", "GoJoin", "GoWrap2", "Grpc"}
ShapesV == {<<"w1">>, <<"w1", "SEP", "w2">>, <<"w2", "NL", "w1">>, <<"L_big">>, <<"w1", "L_big">>}
Shapes2V == {<<"w2">>}
=============================================================================
