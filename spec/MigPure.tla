------------------------------- MODULE MigPure -------------------------------
(* The rename registry (errbase/migrations.go) as pure operators over sets of  *)
(* pairs <<new name, original name>>: the form Apalache handles (MigInd) and   *)
(* TLC compares with ErrSystem!RegisterMigration (an ASSUME in MC_Migrate).    *)

\* @type: (Set(<<Str, Str>>)) => Set(Str);
Dom(t) == {p[1] : p \in t}
\* @type: (Set(<<Str, Str>>), Str) => Str;
Get(t, k) == (CHOOSE p \in t : p[1] = k)[2]
\* errbase.GetTypeKey: the family name a type is encoded under
\* @type: (Set(<<Str, Str>>), Str) => Str;
Fam(t, k) == IF k \in Dom(t) THEN Get(t, k) ELSE k

\* errbase.RegisterTypeMigration(prev, new): rejected (table unchanged) when the
\* new name is registered already; otherwise the new name maps to the original
\* name of prev, and earlier renames that pointed to the new name are forwarded
\* @type: (Set(<<Str, Str>>), Str, Str) => Set(<<Str, Str>>);
Reg(t, prev, new) ==
  IF new \in Dom(t) THEN t
  ELSE LET root == Fam(t, prev)
           t1 == t \cup {<<new, root>>}
       IN {<<p[1], IF p[2] = new THEN root ELSE p[2]>> : p \in t1}
\* @type: (Set(<<Str, Str>>), Str, Str) => Bool;
Accepted(t, prev, new) == new \notin Dom(t)
=============================================================================
