------------------------------ MODULE Accessors ------------------------------
(***************************************************************************)
(* Annotation accessors.  All of them walk the single-cause chain only      *)
(* (errbase.UnwrapOnce): multi-cause nodes and hidden sub-trees contribute  *)
(* nothing (C07, C13, C19).                                                 *)
(***************************************************************************)
EXTENDS Marks

Referral(url, bufNonEmpty) ==
  IF url # <<>> THEN (IF bufNonEmpty THEN <<NL>> ELSE <<>>) \o <<"L_See">> \o url
  ELSE <<"L_IssueReferral">>

\* the hint contributed by one layer (<<>> = none)
HintOf(v) ==
  CASE v.ty = "withHint"             -> v.s
    [] v.ty = "withIssueLink"        -> Referral(v.a[1], FALSE)
    [] v.ty = "unimplementedError"   -> <<"L_UnimplHint">> \o Referral(v.a[1], TRUE)
    [] v.ty = "withAssertionFailure" -> <<"L_AssertHint", "L_IssueReferral">>
    [] OTHER -> <<>>
DetailOf(v) == IF v.ty = "withDetail" THEN v.s ELSE <<>>

MapChain(v, F(_)) == LET c == Chain(v) IN [i \in 1..Len(c) |-> F(c[i])]

\* GetAllHints: innermost first, empty skipped, first occurrence wins
Hints(v)   == Dedup(FilterNonEmpty(Reverse(MapChain(v, HintOf))))
\* GetAllDetails: innermost first, empty skipped, duplicates kept
Details(v) == FilterNonEmpty(Reverse(MapChain(v, DetailOf)))
FlattenHints(v)   == JoinWith(Hints(v), "L_DashDash")
FlattenDetails(v) == JoinWith(Details(v), "L_DashDash")

\* GetAllIssueLinks: outermost first; each is <<url, detail>>
HasLink(v) == v.ty \in {"withIssueLink", "unimplementedError"}
Links(v) == LET c == Chain(v) idx == {i \in 1..Len(c) : HasLink(c[i])}
                F[i \in 0..Len(c)] == IF i = 0 THEN <<>>
                                      ELSE IF i \in idx THEN F[i-1] \o <<c[i].a>> ELSE F[i-1]
            IN F[Len(c)]

\* GetTelemetryKeys: set union (as a set of token sequences)
Keys(v) == UNION {SeqToSet(c.a) : c \in {x \in SeqToSet(Chain(v)) : x.ty = "withTelemetry"}}

\* GetContextTags: outermost first; each layer is its <<k1, v1, k2, v2, ...>>
Tags(v) == LET c == Chain(v)
               F[i \in 0..Len(c)] == IF i = 0 THEN <<>>
                                     ELSE IF c[i].ty = "withContext" /\ c[i].a # <<>> THEN F[i-1] \o <<c[i].a>> ELSE F[i-1]
           IN F[Len(c)]

\* GetDomain: outermost withDomain on the chain; <<>> stands for NoDomain
DomainOf(v) == LET c == Chain(v) idx == {i \in 1..Len(c) : c[i].ty = "withDomain"} IN
               IF idx = {} THEN <<"L_NoDomain">>
               ELSE c[CHOOSE i \in idx : \A j \in idx : i <= j].s

NamedDomain(n) == <<"L_domain", "QT">> \o n \o <<"QT">>
\* domains.NotInDomain against three fixed domains: none, "w1", "w2"
ProbeDomains == <<<<"L_NoDomain">>, NamedDomain(<<"w1">>), NamedDomain(<<"w2">>)>>
NotIn(v) == [i \in 1..Len(ProbeDomains) |-> DomainOf(v) # ProbeDomains[i]]

\* markers.HasInterface(err, (*interface{ ErrorHint() string })(nil)): some layer of
\* the single-cause chain has the method
HinterTy == {"withHint", "withIssueLink", "unimplementedError", "withAssertionFailure"}
HasHinter(v) == \E i \in 1..Len(Chain(v)) : Chain(v)[i].ty \in HinterTy
\* markers.If with a predicate returning the detail of a layer that has ErrorDetail():
\* the outermost such layer answers (<<>> = no layer does)
IfDetail(v) == LET c == Chain(v) idx == {i \in 1..Len(c) : c[i].ty = "withDetail"} IN
               IF idx = {} THEN <<>> ELSE <<c[CHOOSE i \in idx : \A j \in idx : i <= j].s>>

HasTy(v, ty) == \E i \in 1..Len(Chain(v)) : Chain(v)[i].ty = ty
HasAssertionFailure(v) == HasTy(v, "withAssertionFailure")
HasIssueLink(v) == HasTy(v, "withIssueLink")
HasUnimplemented(v) == HasTy(v, "unimplementedError")
IsAssertionFailure(v) == v.ty = "withAssertionFailure"
IsIssueLink(v) == v.ty = "withIssueLink"
IsUnimplemented(v) == v.ty = "unimplementedError"

\* first code on the chain; <<>> = default
CodeOf(v, ty) == LET c == Chain(v) idx == {i \in 1..Len(c) : c[i].ty = ty} IN
                 IF idx = {} THEN <<>> ELSE c[CHOOSE i \in idx : \A j \in idx : i <= j].a[1]

\* HasType walks the single-cause chain: the catalogue types of its layers (the
\* harness asks for every type it has a sample of)
SampledTy == AllTy \ ({"opaqueErrno", "runtimeErr", "gogoStatus", "decoded", "netOpError"} \cup OpaqueTy)
HasTypes(v) == {Chain(v)[i].ty : i \in 1..Len(Chain(v))} \cap SampledTy

\* The accessor part of the projection.
Acc(v) ==
  [hints |-> Hints(v), details |-> Details(v),
   fhints |-> FlattenHints(v), fdetails |-> FlattenDetails(v),
   links |-> Links(v), keys |-> Keys(v), tags |-> Tags(v), domain |-> DomainOf(v),
   hasAssert |-> HasAssertionFailure(v), isAssert |-> IsAssertionFailure(v),
   hasLink |-> HasIssueLink(v), isLink |-> IsIssueLink(v),
   hasUnimpl |-> HasUnimplemented(v), isUnimpl |-> IsUnimplemented(v),
   http |-> CodeOf(v, "withHTTPCode"),
   \* (codes.Unknown, attached or not, shows as "no code")
   grpc |-> (IF CodeOf(v, "withGrpcCode") = <<"n2">> THEN <<>> ELSE CodeOf(v, "withGrpcCode")), hastype |-> HasTypes(v),
   notin |-> NotIn(v), hasHinter |-> HasHinter(v), ifDetail |-> IfDetail(v)]
=============================================================================
