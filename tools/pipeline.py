"""Three-stage pipeline (DESIGN 5): generate (TLC) -> execute (Go, real code) ->
validate (TLC).  Used by ./check; contains no oracle of its own: verdicts are the
MISMATCH lines printed by the trace specification."""
import hashlib
import json
import os
import re
import shutil
import subprocess
import sys
import tempfile
import time
from concurrent.futures import ThreadPoolExecutor

VERIF = os.path.dirname(os.path.dirname(os.path.abspath(__file__)))
SPEC = os.path.join(VERIF, "spec")
HARNESS = os.path.join(VERIF, "harness")
REPO = os.environ.get("VERIF_REPO", "/repo")
NCPU = min(16, os.cpu_count() or 4)

GOENV = dict(os.environ, GOFLAGS="-mod=mod", GOPROXY="off", GOSUMDB="off", GOTOOLCHAIN="local",
             GOCACHE=os.environ.get("GOCACHE", os.path.expanduser("~/.cache/go-build")))


class Infra(Exception):
    """The check could not decide (exit 2): never a violation."""


def log(*a):
    print(*a, flush=True)


def run(cmd, cwd=None, env=None, timeout=None, stdout=None):
    return subprocess.run(cmd, cwd=cwd, env=env, timeout=timeout, stdout=stdout or subprocess.PIPE,
                          stderr=subprocess.STDOUT, text=True)


def build_harness(scratch, race=False):
    """Build the harness against the current working tree of the repository."""
    src = os.path.join(scratch, "harness")
    shutil.copytree(HARNESS, src)
    gomod = os.path.join(src, "go.mod")
    s = open(gomod).read().replace("=> /repo", "=> " + REPO)
    open(gomod, "w").write(s)
    shutil.copy(os.path.join(REPO, "go.sum"), os.path.join(src, "go.sum"))
    out = os.path.join(scratch, "exec")
    cmd = ["go", "build", "-tags", "verif", "-o", out]
    if race:
        cmd.append("-race")
    cmd.append("./cmd/exec")
    r = run(cmd, cwd=src, env=GOENV, timeout=900)
    if r.returncode != 0:
        raise Infra("harness build failed:\n" + r.stdout[-4000:])
    return out


def write_cfg(path, spec, constants, invariants=(), postcondition=None, extra=()):
    lines = ["SPECIFICATION " + spec, "CONSTANTS"]
    for k, v in constants.items():
        lines.append("  %s %s" % (k, v))
    if invariants:
        lines.append("INVARIANTS " + " ".join(invariants))
    if postcondition:
        lines.append("POSTCONDITION " + postcondition)
    lines.append("CHECK_DEADLOCK FALSE")
    lines.extend(extra)
    open(path, "w").write("\n".join(lines) + "\n")


def tlc(workdir, module, cfg, workers, timeout, simulate=None, seed=None, outfile="tlc.out", heap="6g"):
    meta = os.path.join(workdir, "meta_" + module)
    cmd = ["tlc", "-workers", str(workers), "-metadir", meta, "-config", cfg]
    if simulate:
        # num is per worker
        per = max(1, (simulate["num"] + workers - 1) // workers)
        cmd += ["-simulate", "num=%d" % per, "-depth", str(simulate["depth"])]
        if seed is not None:
            cmd += ["-seed", str(seed)]
    cmd.append(module)
    outp = os.path.join(workdir, outfile)
    env = dict(os.environ)
    # bounded heaps: 16 validation JVMs run side by side
    # (the JVM's temporary directories go to the scratch directory, removed with it)
    jtmp = os.path.join(workdir, "jtmp")
    os.makedirs(jtmp, exist_ok=True)
    env["JAVA_TOOL_OPTIONS"] = (env.get("JAVA_TOOL_OPTIONS", "") + " -Xss256m -Xmx" + heap + " -Djava.io.tmpdir=" + jtmp).strip()
    with open(outp, "w") as f:
        try:
            r = subprocess.run(cmd, cwd=workdir, stdout=f, stderr=subprocess.STDOUT, timeout=timeout, env=env)
            rc = r.returncode
        except subprocess.TimeoutExpired:
            rc = -9
    shutil.rmtree(meta, ignore_errors=True)
    return rc, outp


def copy_spec(dst):
    os.makedirs(dst, exist_ok=True)
    for f in os.listdir(SPEC):
        if f.endswith(".tla"):
            shutil.copy(os.path.join(SPEC, f), dst)


STATS_RE = re.compile(r"(\d+) states generated, (\d+) distinct states found")


def stage1(scratch, module, constants, invariants, simulate=None, seed=0, timeout=1800, workers=NCPU,
           spec="GSpec", pre=None, exe=None):
    """Generate behaviours; returns (behaviours file, stats)."""
    d = os.path.join(scratch, "gen")
    copy_spec(d)
    if pre == "regdump":
        r = run([exe, "-regdump", os.path.join(d, "registry.json")], timeout=120)
        if r.returncode != 0:
            raise Infra("registry dump failed: " + r.stdout[-2000:])
    cfg = os.path.join(d, "gen.cfg")
    write_cfg(cfg, spec, constants, invariants)
    t0 = time.time()
    rc, outp = tlc(d, module, "gen.cfg", workers, timeout, simulate=simulate, seed=seed)
    beh = os.path.join(scratch, "beh.json")
    n = 0
    states = distinct = 0
    errors = []
    seen = set()
    with open(outp) as f, open(beh, "w") as g:
        for line in f:
            if line.startswith('"BEH '):
                s = json.loads(line)[4:]
                h = hashlib.md5(s.encode()).digest()
                if h in seen:
                    continue
                seen.add(h)
                g.write(s + "\n")
                n += 1
            else:
                m = STATS_RE.search(line)
                if m:
                    states, distinct = int(m.group(1)), int(m.group(2))
                m = re.search(r"The number of states generated: (\d+)", line)
                if m:
                    states = distinct = int(m.group(1))
                if line.startswith("Error:") or "is violated" in line:
                    errors.append(line.strip())
    if simulate:
        # simulation mode stops by num=; TLC reports no totals the same way
        ok = rc in (0,) or n > 0
    else:
        ok = rc == 0
    if errors or not ok:
        tail = "".join(open(outp).readlines()[-60:])
        raise Infra("stage 1 (TLC %s) failed rc=%s: %s\n%s" % (module, rc, errors[:3], tail[-3000:]))
    return beh, dict(behaviours=n, states=states, distinct=distinct, wall_s=round(time.time() - t0, 1))


def stage2(scratch, exe, beh, nslots, variant=0, extra_args=(), nproc=8):
    """Execute the behaviours on the real code.  The behaviours are split into `nproc`
    contiguous blocks, one harness process each (process-global state of the library is
    per block: a mismatch is reproduced from the start of its block).  Returns the trace,
    statistics and the block size."""
    trace = os.path.join(scratch, "trace.ndjson")
    t0 = time.time()
    lines = open(beh).readlines()
    n = len(lines)
    if n < 64:
        nproc = 1
    bs = max(1, (n + nproc - 1) // nproc)
    procs = []
    for k in range(0, n, bs):
        part = os.path.join(scratch, "beh_%d.json" % k)
        open(part, "w").write("".join(lines[k:k + bs]))
        out = os.path.join(scratch, "trace_%d.ndjson" % k)
        env = dict(os.environ, GORACE="log_path=%s halt_on_error=0 exitcode=0" % os.path.join(scratch, "racelog%d" % k))
        cmd = [exe, "-in", part, "-out", out, "-slots", str(nslots), "-variant", str(variant), "-behoffset", str(k)] \
            + list(extra_args)
        procs.append((subprocess.Popen(cmd, stdout=subprocess.PIPE, stderr=subprocess.STDOUT, text=True, env=env), out, part))
    deadline = time.time() + 3600
    with open(trace, "w") as g:
        for p, out, part in procs:
            try:
                stdout, _ = p.communicate(timeout=max(1, deadline - time.time()))
            except subprocess.TimeoutExpired:
                for q, _, _ in procs:
                    q.kill()
                raise Infra("stage 2 (harness) timed out")
            if p.returncode != 0:
                for q, _, _ in procs:
                    q.kill()
                raise Infra("stage 2 (harness) failed rc=%s:\n%s" % (p.returncode, (stdout or "")[-3000:]))
            with open(out) as f:
                shutil.copyfileobj(f, g)
            os.remove(out)
            os.remove(part)
    return trace, dict(wall_s=round(time.time() - t0, 1), processes=len(procs), block=bs)


def shard_trace(trace, scratch, nshards):
    """Split a trace into shards at behaviour boundaries."""
    # first pass: count events
    total = 0
    with open(trace) as f:
        for _ in f:
            total += 1
    # (a shard is read into memory as a whole by the trace specification: at most a few
    # thousand events each, as many shards as that takes, NCPU of them validated at a time)
    per = max(1, min((total + nshards - 1) // nshards, MAX_SHARD_EVENTS))
    shards = []
    cur = None
    cnt = 0
    idx = 0
    with open(trace) as f:
        for line in f:
            first = '"first":true' in line[:60]
            if cur is None or (cnt >= per and first):
                if cur:
                    cur.close()
                d = os.path.join(scratch, "val%d" % idx)
                os.makedirs(d, exist_ok=True)
                cur = open(os.path.join(d, "trace.ndjson"), "w")
                shards.append([d, 0])
                idx += 1
                cnt = 0
            cur.write(line)
            cnt += 1
            shards[-1][1] += 1
    if cur:
        cur.close()
    return shards, total


def validate_shard(d, nevents, constants, timeout):
    copy_spec(d)
    write_cfg(os.path.join(d, "Trace.cfg"), "TSpec", constants, postcondition="TraceAccepted")
    rc, outp = tlc(d, "Trace", "Trace.cfg", 1, timeout, heap="2g")
    mism = []
    states = 0
    accepted = False
    err = []
    with open(outp) as f:
        for line in f:
            if line.startswith('"MISMATCH '):
                mism.append(json.loads(json.loads(line)[9:]))
            else:
                m = STATS_RE.search(line)
                if m:
                    states = int(m.group(1))
                if "Model checking completed. No error has been found" in line:
                    accepted = True
                if line.startswith("Error:"):
                    err.append(line.strip())
    if rc != 0 or not accepted or states != nevents + 1:
        tail = "".join(open(outp).readlines()[-40:])
        raise Infra("stage 3 (trace validation) did not accept the trace in %s: rc=%s states=%s events=%s %s\n%s"
                    % (d, rc, states, nevents, err[:3], tail[-2500:]))
    return mism, states


MAX_SHARD_EVENTS = 4000


def stage3(scratch, trace, constants, nshards=NCPU, timeout=3600):
    t0 = time.time()
    shards, total = shard_trace(trace, scratch, nshards)
    results = []
    with ThreadPoolExecutor(max_workers=nshards) as ex:
        futs = [ex.submit(validate_shard, d, n, constants, timeout) for d, n in shards]
        for (d, n), f in zip(shards, futs):
            results.append((d, n, f.result()))
    mism = []
    states = 0
    offset = 0
    for d, n, (mm, st) in results:
        for m in mm:
            m["shard"] = d
            m["gl"] = offset + m["l"]
        mism.extend(mm)
        states += st
        offset += n
    return mism, dict(events=total, states=states, shards=len(shards), wall_s=round(time.time() - t0, 1))


def behaviour_of(beh_file, k):
    with open(beh_file) as f:
        for i, line in enumerate(f, 1):
            if i == k:
                return json.loads(line)
    return None


def shard_behaviour_index(trace):
    """Map (global event index) -> behaviour number."""
    idx = []
    with open(trace) as f:
        for line in f:
            m = re.search(r'"beh":(\d+)', line[:40])
            idx.append(int(m.group(1)))
    return idx
