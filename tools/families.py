"""Bounded configurations (one per property family, DESIGN 4.3) and the map from
properties to families.  Constant values are written in TLC cfg syntax."""

BASE = {"NSlots": "= 2", "Deviations": "= {}", "NilOps": "= FALSE", "MaxNodes": "= 12",
        "EmitAll": "= TRUE", "Fresh": "= FALSE", "HopLast": "= 0", "Ops": "<- OpsV", "Shapes": "<- ShapesV", "Shapes2": "<- Shapes2V"}


def fam(module, quick, thorough, **kw):
    d = dict(module=module, constants=dict(BASE), tiers=dict(quick=dict(runs=quick), thorough=dict(runs=thorough)),
             invariants=["Emit", "DesignInv"])
    d.update(kw)
    return d


def ex(maxd, **c):
    cs = {"MaxD": "= %d" % maxd}
    cs.update(c)
    return dict(constants=cs)


def sim(num, depth, design=True, **c):
    """Seeded random walks; design=False leaves the design-level invariants to the other runs."""
    cs = {"MaxD": "= %d" % depth}
    cs.update(c)
    return dict(constants=cs, simulate=dict(num=num, depth=depth + 3),
                invariants=["Emit", "DesignInvLeaf"] if design else ["Emit"])


def chain(maxd, hops=1, **c):
    """Directed exhaustive search: one slot, a chain of constructor calls, then `hops` hops."""
    return ex(maxd, NSlots="= 1", HopLast="= %d" % hops, **c)


FAMILIES = {
    "Compose": fam("MC_Compose",
                   quick=[ex(2, NilOps="= TRUE"), ex(3, Ops="<- OpsW"), sim(1500, 6, design=False, NSlots="= 3")],
                   thorough=[ex(2, NilOps="= TRUE"), chain(3, hops=0, Shapes="<- ShapesOne"), ex(3, Ops="<- OpsW"),
                             chain(4, hops=0, Ops="<- OpsW"),
                             sim(30000, 8, NSlots="= 3")]),
    "Source": fam("MC_Compose",
                  quick=[ex(4, NSlots="= 1", Ops="<- OpsSrc", Shapes="<- ShapesOne", Shapes2="<- Shapes2V")],
                  thorough=[ex(5, NSlots="= 1", Ops="<- OpsSrc", Shapes="<- ShapesOne", Shapes2="<- Shapes2V")]),
    "Transfer": fam("MC_Transfer",
                    quick=[chain(4, hops=2), sim(1500, 6, design=False, NSlots="= 2"),
                           sim(64, 24, design=False, NSlots="= 1", Ops="<- OpsDeep", MaxNodes="= 40")],
                    thorough=[chain(4, hops=2), sim(30000, 8, NSlots="= 3"),
                              sim(1000, 30, design=False, NSlots="= 1", Ops="<- OpsDeep", MaxNodes="= 48")]),
    "Marks": fam("MC_Marks",
                 quick=[ex(2), ex(3, Ops="<- OpsPrefix", Shapes="<- ShapesPrefix"),
                        sim(1500, 6, design=False, NSlots="= 3"),
                        sim(1500, 6, design=False, NSlots="= 2", Ops="<- OpsMark")],
                 thorough=[ex(3), ex(4, Ops="<- OpsPrefix", Shapes="<- ShapesPrefix"), ex(5, Ops="<- OpsMark"),
                           sim(30000, 8, NSlots="= 3")]),
    "Annot": fam("MC_Annot",
                 quick=[chain(4, hops=2), sim(1500, 6, design=False, NSlots="= 2"),
                        sim(1500, 10, design=False, NSlots="= 1", Ops="<- OpsHints", Shapes2="<- ShapesH"),
                        chain(4, hops=2, Ops="<- OpsOS")],
                 thorough=[chain(5, hops=2, Ops="<- OpsOS"), ex(2), chain(5, hops=2), sim(30000, 8, NSlots="= 2"),
                           sim(20000, 12, design=False, NSlots="= 1", Ops="<- OpsHints", Shapes2="<- ShapesH")]),
    "Hidden": fam("MC_Hidden",
                  quick=[ex(2), sim(1500, 6, design=False, NSlots="= 2", NilOps="= TRUE")],
                  thorough=[ex(3), sim(30000, 8, NSlots="= 3", NilOps="= TRUE")]),
    "Multi": fam("MC_Multi",
                 quick=[ex(2, NSlots="= 3"), ex(3, NSlots="= 2", NilOps="= TRUE", HopLast="= 1"),
                        sim(1500, 6, design=False, NSlots="= 3", NilOps="= TRUE"),
                        sim(2000, 8, design=False, NSlots="= 3", Ops="<- OpsNest", Shapes="<- ShapesOneW")],
                 thorough=[sim(30000, 9, design=False, NSlots="= 3", Ops="<- OpsNest", Shapes="<- ShapesOneW"), ex(3, NSlots="= 3"), ex(4, NSlots="= 2", NilOps="= TRUE", HopLast="= 2"),
                           sim(30000, 8, NSlots="= 3", NilOps="= TRUE")]),
    "Taint": fam("MC_Taint",
                 quick=[sim(640, 5, design=False, NSlots="= 2", Fresh="= TRUE"),
                        sim(320, 5, design=False, NSlots="= 2", Fresh="= TRUE", Shapes="<- ShapesR", Shapes2="<- Shapes2R"),
                        chain(4, hops=2, Fresh="= TRUE", Ops="<- OpsBarrier", Shapes="<- ShapesR", Shapes2="<- Shapes2R"),
                        sim(160, 4, design=False, NSlots="= 2", Fresh="= TRUE", Shapes="<- ShapesLong", Shapes2="<- Shapes2R"),
                        chain(4, hops=2, Fresh="= TRUE", Ops="<- OpsRetain", Shapes="<- ShapesOneW", Shapes2="<- Shapes2R"),
                        sim(400, 6, design=False, NSlots="= 2", Fresh="= TRUE", Ops="<- OpsRetain2", Shapes="<- ShapesOneW",
                            Shapes2="<- Shapes2R")],
                 thorough=[sim(6000, 6, design=False, NSlots="= 2", Fresh="= TRUE"),
                           sim(1500, 6, design=False, NSlots="= 3", Fresh="= TRUE"),
                           sim(4000, 6, design=False, NSlots="= 2", Fresh="= TRUE", Shapes="<- ShapesR",
                               Shapes2="<- Shapes2R"),
                           chain(4, hops=2, Fresh="= TRUE", Ops="<- OpsBarrier", Shapes="<- ShapesR", Shapes2="<- Shapes2R"),
                           sim(3000, 6, design=False, NSlots="= 2", Fresh="= TRUE", Shapes="<- ShapesLong", Shapes2="<- Shapes2R"),
                           chain(5, hops=2, Fresh="= TRUE", Ops="<- OpsRetain", Shapes="<- ShapesOneW", Shapes2="<- Shapes2R")]),
    "Format": fam("MC_Format", full=True,
                  quick=[chain(2, hops=0), sim(400, 5, design=False, NSlots="= 2"),
                         chain(4, hops=0, Ops="<- OpsDomains", Shapes="<- ShapesDom", Shapes2="<- ShapesDom"),
                         ex(4, NSlots="= 2", Ops="<- OpsShared", Shapes="<- ShapesOneF", Shapes2="<- ShapesOneF")],
                  thorough=[ex(2), chain(2, hops=0), sim(8000, 7, design=False, NSlots="= 3")]),
    "Faults": dict(module="MC_Faults", spec="FSpec", pre="regdump", constants=dict(BASE, NSlots="= 1"),
                   invariants=["Emit", "DecTotal"],
                   tiers=dict(quick=dict(runs=[dict(constants={"MaxD": "= 1", "NFuzz": "= 300"})]),
                              thorough=dict(runs=[dict(constants={"MaxD": "= 1", "NFuzz": "= 20000"})]))),
    "Stacks": dict(module="MC_Stacks", spec="SSpec", constants=dict(BASE, NSlots="= 1"),
                   invariants=["Emit", "InvC16"],
                   tiers=dict(quick=dict(runs=[dict(constants={"MaxD": "= 1"}), dict(constants={"MaxD": "= 2"})]),
                              thorough=dict(runs=[dict(constants={"MaxD": "= 1"}), dict(constants={"MaxD": "= 2"})]))),
    "Migrate": dict(module="MC_Migrate", spec="MSpec", proof="apalache_c17.sh", constants=dict(BASE, NSlots="= 3"),
                    invariants=["Emit", "InvC17"],
                    tiers=dict(quick=dict(runs=[dict(constants={"MaxD": "= 20", "Dup": "= FALSE"}),
                                                dict(constants={"MaxD": "= 20", "Dup": "= TRUE"})]),
                               thorough=dict(runs=[dict(constants={"MaxD": "= 20", "Dup": "= FALSE"}),
                                                   dict(constants={"MaxD": "= 20", "Dup": "= TRUE"})]))),
    "Grpc": fam("MC_Grpc",
                quick=[chain(3), ex(2, NilOps="= TRUE", HopLast="= 1"), sim(600, 6, design=False, NSlots="= 2"),
                       chain(5, Ops="<- OpsCode", Shapes="<- ShapesOne"),
                       chain(4, Ops="<- OpsAllCodes", Shapes="<- ShapesOne")],
                thorough=[chain(4, hops=2), sim(10000, 8, design=False, NSlots="= 3", NilOps="= TRUE"),
                          chain(6, Ops="<- OpsCode", Shapes="<- ShapesOne")]),
    "Compat": fam("MC_Compat",
                  quick=[ex(2, NilOps="= TRUE"), chain(3, hops=0), sim(1500, 6, design=False, NSlots="= 3", NilOps="= TRUE")],
                  thorough=[ex(3, NilOps="= TRUE"), chain(3, hops=0), sim(30000, 8, design=False, NSlots="= 3", NilOps="= TRUE")]),
    "Concurrent": dict(module="MC_Concurrent", spec="CSpec", race=True,
                       constants=dict(BASE, NSlots="= 2", COps="<- COpsQuick", Storm="= 16", BuildD="= 4"),
                       invariants=["Emit"],
                       tiers=dict(
                           quick=dict(runs=[dict(constants={"MaxD": "= 20"},
                                                 simulate=dict(num=160, depth=24), invariants=["Emit"])]),
                           thorough=dict(runs=[
                               dict(constants={"MaxD": "= 20", "COps": "<- COpsAll", "Storm": "= 64", "BuildD": "= 5"},
                                    simulate=dict(num=3000, depth=24), invariants=["Emit"])]))),
    "Unknown": fam("MC_Unknown",
                   quick=[chain(4, hops=2), sim(1000, 5, design=False, NSlots="= 2")],
                   thorough=[chain(4, hops=2), sim(20000, 7, NSlots="= 3")]),
}

LEVEL_NOTE = ("TLC, SANY, the Go toolchain, the harness's constructor table / projection / lexer, and the "
              "third-party libraries (redact, gogo/protobuf, sentry-go, logtags) as shipped")

ASSUME = ["strings are abstracted to token shapes (DESIGN 3.1)",
          "exhaustive only within the stated bounds; random walks beyond them",
          "the harness projection and lexer are trusted"]

def prop(families, rule, trigger_ops=None, level="model_checking"):
    return dict(families=families, level=level, trigger_ops=trigger_ops, rule=rule, assumptions=ASSUME,
                exhaustive=dict(quick=False, thorough=False))


EXHAUSTIVE = {"C16", "C17"}


GEN = ("behaviours are generated by TLC from the family's bounded configuration (exhaustively to the stated depth, "
       "then seeded random walks), executed step by step on the real library and validated by TLC against the trace "
       "specification; distinct = distinct step sequences; non-trivial = contains ")

PROPS = {
    "C18": prop(["Concurrent"], "TLC generates a value (random constructor walk, possibly with a hop) and then an interleaving of "
                                "Begin / End steps of three goroutines running observer operations on it, followed by a storm of "
                                "16 (quick) or 64 (thorough) goroutines cycling through all twelve operations; every goroutine "
                                "repeats its operation between its Begin and End; the harness is built with -race; distinct = "
                                "distinct step sequences; non-trivial = all (each has overlapping observers)",
                ["CBegin"], level="exploration"),
    "C14": prop(["Compat"], GEN + "a comparison of the library's Is / As / Unwrap / Cause with the standard library's and "
                            "pkg/errors' on the same value (all do)", None),
    "C20": prop(["Grpc"], GEN + "a call through the gRPC interceptors", ["Grpc"]),
    "C01": prop(["Transfer"], GEN + "at least one hop between knowing processes", ["Hop"]),
    "C02": prop(dict(quick=["Transfer", "Unknown"], thorough=["Transfer", "Unknown", "Marks", "Multi"]), GEN + "at least one hop (knowing or unknowing)", ["Hop"]),
    "C03": prop(["Taint"], GEN + "a string that entered through an unsafe channel (its own searchable word)", None),
    "C04": prop(["Unknown", "Multi"], GEN + "a hop through a process knowing only a subset of the families", ["Hop"]),
    "C05": prop(["Faults"], "every decoder key of the live registries x payload fault x detail fault x message type x "
                            "carrier position, enumerated by TLC from registry.json, plus seeded random wire trees; each "
                            "case is decoded by the real DecodeError and every observer is applied to the result; "
                            "distinct = distinct cases; non-trivial = all (each is a faulty or random message)",
                None, level="fault_enumeration"),
    "C06": prop(["Taint"], GEN + "a redactable rendering of a value built from hostile or regular strings", None),
    "C07": prop(["Hidden"], GEN + "a barrier, secondary error or Mark",
                ["Handled", "Opaque", "HandledWithMessage", "HandledInDomain", "HandledInDomainWithMessage",
                 "HandleAsAssertionFailure", "NewAssertionErrorWithWrappedErrf", "WithSecondaryError",
                 "CombineErrors", "Mark", "Newf", "Wrapf"]),
    "C08": prop(["Marks"], GEN + "at least two error values to compare", None),
    "C09": prop(["Format"], GEN + "a value formatted with the verb table and %+v (all do)", None),
    "C10": prop(["Compose"], GEN + "at least one constructor call (all do)", None),
    "C11": prop(dict(quick=["Annot"], thorough=["Transfer", "Annot"]), GEN + "an annotation and a hop between knowing processes", ["Hop"]),
    "C12": prop(["Taint"], GEN + "a string that entered through a safe channel (its own searchable word)", None),
    "C13": prop(["Multi"], GEN + "a multi-cause node", ["Join", "JoinPkg", "GoJoin", "GoWrap2"]),
    "C15": prop(["Format"], GEN + "a value for which a Sentry report is built (all do)", None),
    "C16": prop(["Stacks", "Source"], "every exported stack-capturing or domain-computing function of the root package and of "
                            "errutil / withstack / domains x depth 0..3, called through four non-inlinable helper functions "
                            "in four packages (also in pairs, to check that one call does not disturb the next); distinct = "
                            "distinct (function, depth) sequences; non-trivial = all", None),
    "C17": prop(["Migrate"], "all assignments of {original, renamed, differently renamed, chain of two renames, never knew the "
                             "type} to three processes x every registration order of each process's renames (x an attempt to "
                             "register a target twice), each followed by the scenario script (build at 1, transfer 1->2->3, "
                             "build an equal error at 3 or 2, compare at 3, third error 1->3); exhaustive; distinct = distinct "
                             "step sequences; non-trivial = all", None),
    "C19": prop(["Annot"], GEN + "a hint, detail, link, key or tag annotation",
                ["WithHint", "WithDetail", "WithTelemetry", "WithIssueLink", "WithContextTags",
                 "WithAssertionFailure", "Unimplemented", "AssertionFailedf", "HandleAsAssertionFailure"]),
}


TECH = "TLA+ spec + TLC-generated behaviours replayed on the real code + TLC trace validation"


def claim(text, ref, technique=TECH):
    return dict(text=text, ref=ref, technique=technique)


CLAIMS = {
    "C01": claim("TLC checks on the model that Dec(Enc(v)) keeps shape/text and that re-encoding is drift-free for every "
                 "reachable value of the bounded configuration; every generated behaviour is executed on the real code "
                 "and the recorded before/after observations of each hop are compared by the trace specification",
                 "DESIGN 8 C01"),
    "C02": claim("Is vectors against a reference pool (all nodes of all slots, hidden included) are recorded before and "
                 "after every hop, in both roles, and compared by the trace specification; the model explains the two "
                 "inherent exceptions as named known findings", "DESIGN 8 C02"),
    "C03": claim("the specification assigns a channel class (unsafe / safe) to every string argument of every constructor and "
                 "tracks the words of each slot; TLC generates compositions where every argument carries its own words over "
                 "hostile and regular shapes, through knowing and unknowing hops; the trace specification checks on every "
                 "recorded PII-free output (5 redactable renderings, Redact(), safe details, wire reportable payloads, "
                 "Sentry event and extras) that no unsafe-only word occurs outside redaction markers", "DESIGN 8 C03"),
    "C04": claim("hops through receivers knowing every proper subset of the value's families (decoders removed through "
                 "the verif hook): text/shape/type names/safe details at the receiver, byte-exact re-encoding, and "
                 "equality of the value a knowing process decodes afterwards with the direct one", "DESIGN 8 C04"),
    "C05": claim("fault enumeration driven by the live registries: TLC enumerates key x payload x details x message-type x "
                 "position and validates that each recorded decode and each of ~50 observer calls returned without panic "
                 "and non-nil; the model's own decoder is total on the same space (a missing guard is a TLC evaluation "
                 "error)", "DESIGN 8 C05",
                 "TLC-enumerated fault product replayed on the real DecodeError + TLC trace validation"),
    "C06": claim("marker streams of the recorded redactable %v/%s/%+v renderings are scanned by the trace specification "
                 "(balanced, never nested, balanced per line) for hostile inputs; byte-level congruence with the plain "
                 "rendering via Formattable for regular inputs; refusal of %q/%x", "DESIGN 8 C06"),
    "C07": claim("ideal model of hidden sub-trees (not in VisibleTree) predicts every accessor, Is vector and text; "
                 "recorded values must equal it", "DESIGN 8 C07"),
    "C08": claim("IsImpl (transcription) = IsSpec (declarative equivalence) checked by TLC on every reachable state; "
                 "recorded Is/IsAny results of the real code must equal IsSpec", "DESIGN 8 C08"),
    "C09": claim("for every generated value (local and decoded): ~400 verb/flag/width/precision specifications rendered "
                 "directly and through Formattable and compared with fmt's rendering of the Error() string (relation between "
                 "two recorded renderings, computed by the harness, judged by the trace specification); the structure of %+v "
                 "(entries, order, indentation, Error types line, each wrapper's own detail) against the Format module of the "
                 "specification", "DESIGN 8 C09"),
    "C10": claim("compositional Text model per catalogue row, nil rules as part of Build; recorded text at every node "
                 "and nil-ness must equal the model", "DESIGN 8 C10"),
    "C11": claim("accessor and per-layer safe-detail observations before and after each hop between knowing processes "
                 "must be equal", "DESIGN 8 C11"),
    "C12": claim("words that entered through safe channels (per the specification's channel table), including behind "
                 "barriers and in secondary errors, must occur in the recorded Sentry report or safe details, locally and "
                 "after hops between knowing processes", "DESIGN 8 C12"),
    "C13": claim("multi-cause nodes in the model (UnwrapN, Is recursion, Join text); recorded shape/text/Is must equal "
                 "the model and survive hops", "DESIGN 8 C13"),
    "C15": claim("abstract model of BuildSentryReport in the specification (composition lines, exceptions per stack-carrying "
                 "layer outermost first with that layer's frames and the domain as module, error-types lines with type name "
                 "and mark, source prefix, nil -> nothing); recorded report observations must equal it", "DESIGN 8 C15"),
    "C16": claim("the specification transcribes, per API function, the chain of forwarding functions and the increments they "
                 "add to the depth as written; TLC checks on the table that every capture lands on the prescribed caller, "
                 "enumerates function x depth, and validates the recorded innermost frame (function, line), one-line "
                 "source and domain package of every real call against the prescribed user frame", "DESIGN 8 C16"),
    "C20": claim("every generated value is returned by a handler of the repository's Echoer service behind the real "
                 "UnaryServerInterceptor on an in-memory listener and received through the real UnaryClientInterceptor; the "
                 "harness records its projection next to that of the direct EncodeError/DecodeError transfer of the same "
                 "value and the raw gRPC status code seen by a client without interceptor; the trace specification requires "
                 "equality of the two and the prescribed code (WrapWithGrpcCode code, Unknown, the status's own code, OK for nil)",
                 "DESIGN 8 C20"),
    "C14": claim("differential: the harness records the real results of the standard library's errors.Is / As / Unwrap and of "
                 "pkg/errors.Cause next to the library's on every generated value, reference and As target (pointer, "
                 "non-comparable value, interface); the trace specification checks the stated relations between the two "
                 "recorded sides (implication for Is, same first match and value for As, agreement of Unwrap where the layer "
                 "exposes Unwrap, same root as pkg Cause where every layer exposes Cause) and, from the model, that the "
                 "standard library recognises every node of a value it can reach", "DESIGN 8 C14"),
    "C18": claim("the specification's Concurrent part states that observer steps never change the shared values and fixes the "
                 "overlap shape (which Begin / End steps interleave); the Go harness realises each shape with real goroutines "
                 "that repeat their operation from Begin to End and compares every result with the operation's result "
                 "executed alone; data races are decided by the Go race detector under which the harness runs (reports "
                 "counted per step and validated to be zero by the trace specification). Schedules inside a call are the Go "
                 "scheduler's: exploration, not exhaustive", "DESIGN 8 C18",
                 "TLA+ overlap shapes replayed with real goroutines under the Go race detector + TLC trace validation"),
    "C17": claim("the specification models processes with their own rename registries (RegisterTypeMigration transcribed, "
                 "incl. forwarding) and linked types; TLC checks on the model that every lineage type is encoded under the "
                 "original name and that equal lineage errors are identified in every process, for every version assignment and "
                 "registration order, exhaustively; each behaviour is replayed on the real registries (installed per process "
                 "through the verif hook) and the recorded family, decoded type, Is results and duplicate rejection are "
                 "validated; in addition Apalache (five names) and TLAPS (any set of names, 48 obligations) discharge an "
                 "inductive invariant of the registry operator (idempotent family lookup, both names of every accepted "
                 "rename share a family) for any number and order of registrations, the operator being checked equal to "
                 "the explored one by TLC ASSUMEs", "DESIGN 8 C17"),
    "C19": claim("independent model of hint/detail/link/key/tag aggregation; recorded accessor outputs must equal it",
                 "DESIGN 8 C19"),
}

NOT_APPLICABLE = {pid: "check not built yet (construction order in DESIGN.md section 13); the specification does "
                       "not cover this property's observations so far" for pid in
                  ["C%02d" % i for i in range(1, 21)]}
