"""./check selftest: demonstrates that the trace specification is bound to the recorded
observations (DESIGN 10): a valid trace is accepted silently; one corrupted field is
reported; a trace with a dropped event no longer matches the model; an event the
specification cannot take at all is a hard rejection."""
import json
import os
import shutil
import tempfile

import pipeline as P

BEH = [
    {"op": "New", "dst": 1, "src": [], "s": ["w1", "SEP", "w2"], "a": [], "parts": [], "n": 0, "known": []},
    {"op": "Wrap", "dst": 1, "src": [1], "s": ["w3"], "a": [], "parts": [], "n": 0, "known": []},
    {"op": "WithHint", "dst": 1, "src": [1], "s": ["w4"], "a": [], "parts": [], "n": 0, "known": []},
    {"op": "GoNew", "dst": 2, "src": [], "s": ["w1"], "a": [], "parts": [], "n": 0, "known": []},
    {"op": "WithSecondaryError", "dst": 1, "src": [1, 2], "s": [], "a": [], "parts": [], "n": 0, "known": []},
    {"op": "Hop", "dst": 1, "src": [1], "s": [], "a": [], "parts": [], "n": 0, "known": ["*"]},
]
CONSTS = {"NSlots": "= 2", "Deviations": "= {}"}


def validate(scratch, name, lines):
    d = os.path.join(scratch, name)
    os.makedirs(d)
    open(os.path.join(d, "trace.ndjson"), "w").write("".join(lines))
    try:
        mism, _ = P.validate_shard(d, len(lines), CONSTS, 600)
        return "accepted", mism
    except P.Infra as e:
        return "rejected", str(e)


def main(argv):
    scratch = tempfile.mkdtemp(prefix="verif_selftest_")
    ok = True
    try:
        exe = P.build_harness(scratch)
        beh = os.path.join(scratch, "beh.json")
        open(beh, "w").write(json.dumps(BEH) + "\n")
        trace, _ = P.stage2(scratch, exe, beh, 2)
        lines = open(trace).readlines()

        st, mism = validate(scratch, "valid", lines)
        good = st == "accepted" and not [m for m in mism if m["kind"] == "verdict"]
        P.log("1. valid trace: %s, %d verdict mismatches -> %s" % (st, len(mism), "ok" if good else "FAILED"))
        ok &= good

        ev = json.loads(lines[2])
        ev["obs"]["acc"]["hints"] = [["w9"]]          # corrupt one recorded field
        st, mism = validate(scratch, "corrupt", lines[:2] + [json.dumps(ev) + "\n"] + lines[3:])
        hit = st == "accepted" and any(m["field"] == "acc" and m["l"] == 3 for m in mism)
        P.log("2. one corrupted field (hints of event 3): reported=%s -> %s" % (hit, "ok" if hit else "FAILED"))
        ok &= hit

        st, mism = validate(scratch, "dropped", lines[:1] + lines[2:])   # drop the Wrap event
        hit = st == "rejected" or any(m["kind"] in ("verdict", "conf") for m in mism)
        P.log("3. dropped event: %s, mismatches=%d -> %s" % (st, 0 if st == "rejected" else len(mism), "ok" if hit else "FAILED"))
        ok &= hit

        ev = json.loads(lines[5])
        ev["step"]["op"] = "NoSuchOp"                # an event the specification cannot take
        st, _ = validate(scratch, "untakable", lines[:5] + [json.dumps(ev) + "\n"])
        hit = st == "rejected"
        P.log("4. event the specification cannot take: %s -> %s" % (st, "ok" if hit else "FAILED"))
        ok &= hit
    except P.Infra as e:
        P.log("INFRA: " + str(e))
        return 2
    finally:
        shutil.rmtree(scratch, ignore_errors=True)
    return 0 if ok else 1
