#!/usr/bin/env python3
"""Runs every family ONCE at the thorough tier and derives, for every property, what
`./check <id> thorough` would report (a property's check is the union of its families'
runs, filtered to the mismatches that speak to it and classified against
known_findings.json).  Used to validate the thorough commands in a third of the time
the twenty commands take one after the other.  usage: thorough_pass.py [family ...]"""
import json
import os
import runpy
import sys
import tempfile
import time

want = sys.argv[1:]
here = os.path.dirname(os.path.abspath(__file__))
root = os.path.dirname(here)
sys.argv = ["check"]
chk = runpy.run_path(os.path.join(root, "check"), run_name="check_lib")
P = chk["P"]
FAMILIES, PROPS = chk["FAMILIES"], chk["PROPS"]
known = chk["load_known"]()


def fams_of(prop):
    f = PROPS[prop]["families"]
    return f["thorough"] if isinstance(f, dict) else f


def main(argv):
    todo = argv or sorted({f for p in PROPS for f in fams_of(p)})
    seed = int(os.environ.get("VERIF_SEED", "0"))
    results = {}
    for fam in todo:
        t0 = time.time()
        scratch = tempfile.mkdtemp(prefix="verif_thor_")
        try:
            mism, stats, behs, exe = chk["run_family"](fam, "thorough", seed, scratch)
            results[fam] = mism
            seen = set()
            for m in mism:
                k = (m["kind"], m["field"], m["op"], ",".join(sorted(m.get("sites") or [])))
                if m["kind"] == "verdict" and k not in seen and len(seen) < 300:
                    seen.add(k)
                    m["behaviour"] = P.behaviour_of(m["behfile"], m["beh"])
            nb = sum(s["gen"]["behaviours"] for s in stats.values())
            print("family %s: %d behaviours, %d mismatches, %.0fs" % (fam, nb, len(mism), time.time() - t0), flush=True)
        except P.Infra as e:
            print("family %s: INFRA %s" % (fam, str(e)[:500]), flush=True)
            results[fam] = None
        finally:
            import shutil
            shutil.rmtree(scratch, ignore_errors=True)
    bad = 0
    for prop in sorted(PROPS):
        fs = fams_of(prop)
        if not all(f in results for f in fs):
            continue
        if any(results[f] is None for f in fs):
            print("%s thorough: exit 2 (infra)" % prop)
            bad += 1
            continue
        viol = {}
        kf = set()
        for f in fs:
            for m in results[f]:
                if m["kind"] != "verdict" or prop not in m["props"]:
                    continue
                hit = chk["known_match"](known, prop, m)
                if hit:
                    kf.update(k["id"] for k in hit)
                else:
                    viol.setdefault((f, m["field"], m["op"], ",".join(sorted(m.get("sites") or []))), []).append(m)
        print("%s thorough: %d violation site(s), known findings %s" % (prop, len(viol), sorted(kf)))
        for key, ms in sorted(viol.items())[:6]:
            m = ms[0]
            print("   %s x%d beh=%s exp=%s got=%s" % (key, len(ms), m["beh"], json.dumps(m.get("exp"))[:200], json.dumps(m.get("got"))[:200]))
            b = next((x.get("behaviour") for x in ms if x.get("behaviour")), None)
            if b:
                print("      " + json.dumps(b)[:1500])
        bad += 1 if viol else 0
    return 1 if bad else 0


if __name__ == "__main__":
    sys.exit(main(want))
