#!/bin/sh
# usage: try_seed.sh <patch.diff> <tier> <property>...
# Applies the patch to a scratch worktree of /repo (so that checks running elsewhere
# against /repo are not disturbed), runs the checks against it (VERIF_REPO), removes it.
patch="$1"; tier="$2"; shift 2
wt=$(mktemp -d /tmp/seedrepo_XXXXXX)
rmdir "$wt"
git -C /repo worktree add --detach "$wt" HEAD >/dev/null 2>&1 || { echo "cannot create worktree"; exit 2; }
( cd "$wt" && git apply "$patch" ) || { echo "patch does not apply"; git -C /repo worktree remove --force "$wt"; exit 2; }
cd "$(dirname "$0")/.." || exit 2
for p in "$@"; do
  VERIF_REPO="$wt" ./check "$p" "$tier" > /tmp/try_seed_$p.log 2>&1; rc=$?
  echo "== $p $tier rc=$rc"; grep -c "^VIOLATION" /tmp/try_seed_$p.log; grep "^VIOLATION\|^  site\|^INFRA\|^KNOWN" /tmp/try_seed_$p.log | cut -c1-260 | head -8
done
git -C /repo worktree remove --force "$wt"; git -C /repo worktree prune
