#!/bin/sh
# usage: try_seed.sh <patch.diff> <tier> <property>...   applies the patch to /repo, runs the checks, reverts.
patch="$1"; tier="$2"; shift 2
cd /repo || exit 2
if ! git diff --quiet; then echo "repo dirty"; exit 2; fi
git apply "$patch" || { echo "patch does not apply"; exit 2; }
cd /verif
for p in "$@"; do
  ./check "$p" "$tier" > /tmp/try_seed_$p.log 2>&1; rc=$?
  echo "== $p $tier rc=$rc"; grep -c "^VIOLATION" /tmp/try_seed_$p.log; grep "^VIOLATION\|^  site\|^INFRA\|^KNOWN" /tmp/try_seed_$p.log | cut -c1-260 | head -8
done
git -C /repo checkout -- . ; git -C /repo status --short | head -3
