#!/bin/sh
# Confirms a seeded change: compiles, pinned suite passes, demo fails with the patch / passes without.
# usage: confirm_seed.sh <dir with patch.diff and demo_test.go> [label]
out=$1; id=${2:-seed}
wt=$(mktemp -d /tmp/confirmwt_XXXXXX); rmdir $wt
export GOFLAGS=-mod=mod GOPROXY=off GOSUMDB=off GOTOOLCHAIN=local
git -C /repo worktree add --detach $wt HEAD >/dev/null 2>&1 || { echo "cannot create worktree"; exit 2; }
mkdir -p $wt/seeddemo && cp $out/demo_test.go $wt/seeddemo/
( cd $wt && go test ./seeddemo -count=1 >/dev/null 2>&1 ); rc0=$?
( cd $wt && git apply $out/patch.diff ) || echo "$id: patch does not apply"
( cd $wt && go build ./... >/dev/null 2>&1 ); rcb=$?
( cd $wt && go test ./seeddemo -count=1 >/dev/null 2>&1 ); rc1=$?
rm -rf $wt/seeddemo
base=$(python3 /verif/tools/baseline.py $wt 2>&1 | head -1)
echo "$id: demo-without-patch rc=$rc0 build rc=$rcb demo-with-patch rc=$rc1 suite: $base"
git -C /repo worktree remove --force $wt; git -C /repo worktree prune
