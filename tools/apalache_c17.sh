#!/bin/sh
# Unbounded check of the rename registry (spec/MigInd.tla) with Apalache.
# usage: apalache_c17.sh <scratch dir>; exit 0 = proved, 1 = counterexample, 2 = tool failure
here=$(cd "$(dirname "$0")/.." && pwd)
d="$1"; mkdir -p "$d/apa" && cp $here/spec/MigPure.tla $here/spec/MigInd.tla $here/spec/MigIndBad.tla "$d/apa/" || exit 2
cd "$d/apa" || exit 2
cat > c.cfg <<EOC
CONSTANT Names = {"a","b","c","d","e"}
INIT IndInit
NEXT Next
EOC
cat > i.cfg <<EOC
CONSTANT Names = {"a","b","c","d","e"}
INIT Init
NEXT Next
EOC
run() { # name module cfg init inv length expect
  out=$(timeout 900 apalache-mc check --out-dir="$d/apa/out" --config=$3 --init=$4 --inv=$5 --length=$6 $2.tla 2>&1)
  if echo "$out" | grep -q "The outcome is: NoError"; then r=ok; elif echo "$out" | grep -q "The outcome is: Error"; then r=cex; else r=fail; fi
  echo "apalache $1: $r"
  [ "$r" = fail ] && { echo "$out" | tail -5; exit 2; }
  [ "$r" = "$7" ] || exit 1
}
run "base (Init => IndInv)" MigInd i.cfg Init IndInv 0 ok
run "step (IndInv /\\ Next => IndInv')" MigInd c.cfg IndInit IndInv 1 ok
run "consequence (IndInv => FamIdem)" MigInd c.cfg IndInit FamIdem 0 ok
run "non-vacuity (old registry must fail the step)" MigIndBad c.cfg IndInit IndInv 1 cex
# TLAPS: the same invariant for ANY set of names (spec/MigProof.tla), proved from scratch
mkdir -p "$d/tlaps" && cp $here/spec/MigFun.tla $here/spec/MigProof.tla "$d/tlaps/" && cd "$d/tlaps" || exit 2
out=$(timeout 900 tlapm --threads 8 --cleanfp MigProof.tla 2>&1)
n=$(echo "$out" | sed -n 's/.*All \([0-9]*\) obligations proved.*/\1/p' | head -1)
if [ -n "$n" ]; then echo "tlaps MigProof (InitInv, StepInv): ok, $n obligations proved"; else echo "tlaps MigProof: failed"; echo "$out" | grep -v "^Called\|^Raised" | tail -8; exit 2; fi
exit 0
