#!/usr/bin/env python3
"""Run the repository's pinned suite with the verif tag OFF and compare with BASELINE.json."""
import json
import os
import subprocess
import sys

repo = sys.argv[1] if len(sys.argv) > 1 else "/repo"
base = json.load(open("/root/.vp/BASELINE.json"))
stable = set(base["stable_pass"])
env = dict(os.environ, GOFLAGS="-mod=mod", GOPROXY="off", GOSUMDB="off", GOTOOLCHAIN="local")
p = subprocess.run(["go", "test", "-vet=off", "-count=1", "-json", "./..."], cwd=repo, env=env,
                   stdout=subprocess.PIPE, stderr=subprocess.DEVNULL, text=True)
res = {}
for l in p.stdout.splitlines():
    try:
        e = json.loads(l)
    except ValueError:
        continue
    if e.get("Test") and e.get("Action") in ("pass", "fail"):
        res[e["Package"] + "::" + e["Test"]] = e["Action"]
bad = sorted(t for t in stable if res.get(t) != "pass")
print("stable passing: %d of %d" % (len(stable) - len(bad), len(stable)))
for t in bad:
    print("  NOT PASSING:", t, res.get(t))
sys.exit(1 if bad else 0)
