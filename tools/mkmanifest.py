#!/usr/bin/env python3
"""Regenerate MANIFEST.json from tools/families.py (single source of truth)."""
import json
import os
import sys

sys.path.insert(0, os.path.dirname(os.path.abspath(__file__)))
from families import PROPS, LEVEL_NOTE, CLAIMS, NOT_APPLICABLE  # noqa: E402

VERIF = os.path.dirname(os.path.dirname(os.path.abspath(__file__)))
hooks_commits = [l.strip() for l in open(os.path.join(VERIF, "tools", "hook_commits.txt")) if l.strip()]
checks = []
for pid in sorted(PROPS):
    c = CLAIMS[pid]
    checks.append(dict(
        property_id=pid,
        quick_cmd="./check %s quick" % pid,
        thorough_cmd="./check %s thorough" % pid,
        evidence_file="/verif/evidence/%s.json" % pid,
        replay_cmd_template="./check replay {path}",
        engine="tla-pipeline",
        level_claimed=dict(category=PROPS[pid]["level"], text=c["text"], design_ref=c["ref"]),
        level_note=LEVEL_NOTE,
        technique=c["technique"],
    ))
m = dict(
    version=1,
    setup_cmd="./check setup",
    hooks=dict(guard="verif", enable="go build -tags verif (harness built by every check from /repo's working tree)",
               baseline_off_cmd="cd /repo && GOFLAGS=-mod=mod go test -vet=off -count=1 ./...",
               source_commits=hooks_commits, add_only=True),
    engines=[dict(name="tla-pipeline", path="/verif/check", serves_properties=sorted(PROPS),
                  kind_free_text="TLA+ specification ErrSystem (spec/*.tla): TLC generates behaviours from bounded "
                                 "configurations and checks design-level invariants; a Go harness executes them on the "
                                 "real library; TLC validates the recorded traces against the trace specification "
                                 "(conformance + property verdicts)")],
    checks=checks,
    notes=("See DESIGN.md (section 0 records what was built, the defects found and repaired in /repo, the open findings, "
           "the false alarms corrected and the 80 independently seeded changes with the check that catches each). "
           "known_findings.json lists the open findings (KNOWN-FINDING lines, matched on property + field + site) and the "
           "repaired ones (fixed entries suppress nothing). Exit codes: 0 held, 1 + VIOLATION line, 2 machinery / design-level "
           "failure (never a verdict). C17 additionally carries Apalache and TLAPS obligations (tools/apalache_c17.sh). "
           "tools/seed_regress.sh re-applies every seeded change in a scratch worktree; tools/thorough_pass.py runs every "
           "family once at the thorough tier."),
    not_applicable=[dict(property_id=k, reason=v) for k, v in sorted(NOT_APPLICABLE.items()) if k not in PROPS],
)
json.dump(m, open(os.path.join(VERIF, "MANIFEST.json"), "w"), indent=1)
print("MANIFEST.json: %d checks, %d not applicable" % (len(checks), len(m["not_applicable"])))
