#!/bin/sh
# Re-applies every recorded seeded change (seeded/<id>/patch.diff) to a scratch worktree of
# /repo and requires the quick check of its property to report a violation.
# usage: seed_regress.sh [id ...]     (default: all)
cd "$(dirname "$0")/.." || exit 2
root=$(pwd)
ids="$*"
[ -z "$ids" ] && ids=$(ls seeded | sort)
miss=0
for id in $ids; do
  prop=$(echo "$id" | cut -c1-3)
  out=$(tools/try_seed.sh $root/seeded/$id/patch.diff quick $prop 2>&1)
  rc=$(echo "$out" | sed -n 's/^== .* rc=\([0-9]*\)$/\1/p' | head -1)
  nv=$(echo "$out" | grep -c "^VIOLATION property=$prop ")
  if [ "$rc" = "1" ] && [ "$nv" -ge 1 ]; then echo "caught  $id (rc=$rc, $nv violation sites)"; else echo "MISSED  $id (rc=$rc)"; miss=$((miss+1)); echo "$out" | tail -3; fi
done
echo "seeded changes not caught: $miss"
[ $miss -eq 0 ]
