// Package cat binds the abstract type catalogue of the specification
// (spec/Values.tla) to the live Go types: it derives, from sample values built
// through the public API, the Go type name and the type key of every
// catalogue row, and registers the constant texts of the library as literal
// tokens. Nothing is copied from the library's sources: a reworded literal
// or a renamed internal type changes no abstract observation.
package cat

import (
	"context"
	goerrors "errors"
	"fmt"
	"io"
	"os"
	"reflect"
	"sort"
	"strings"
	"syscall"

	"github.com/cockroachdb/errors"
	"github.com/cockroachdb/errors/errbase"
	"github.com/cockroachdb/errors/errorspb"
	"github.com/cockroachdb/errors/extgrpc"
	"github.com/cockroachdb/errors/exthttp"
	"github.com/cockroachdb/errors/issuelink"
	"github.com/cockroachdb/errors/join"
	"github.com/cockroachdb/logtags"
	pkgerrors "github.com/pkg/errors"
	"google.golang.org/grpc/codes"
	grpcstatus "google.golang.org/grpc/status"

	"verifharness/internal/tok"
	"verifharness/internal/utypes"
)

// GoType2Ty maps reflect type strings to catalogue type names.
var GoType2Ty = map[string]string{}

// Fam2Ty maps live family names (type keys) to catalogue names.
var Fam2Ty = map[string]string{}

// Ty2Fam is the inverse of Fam2Ty.
var Ty2Fam = map[string]string{}

// DetailLits: literal detail texts of library wrappers in %+v entries
// (catalogue name -> text), read from live sample renderings.
var DetailLits = map[string]string{}

// Sentinels: identity tag -> object.
var Sentinels = map[string]error{}

// Errnos: name -> value
var Errnos = map[string]syscall.Errno{
	"ENOENT": syscall.ENOENT, "EACCES": syscall.EACCES, "EPERM": syscall.EPERM,
	"EEXIST": syscall.EEXIST, "EINTR": syscall.EINTR, "ETIMEDOUT": syscall.ETIMEDOUT,
}

// Samples: catalogue name -> a sample value of that Go type (for HasType).
var Samples = map[string]error{}

// Conflicts lists Go types that two catalogue rows claimed: a public constructor
// returned a value of an unexpected type (the catalogue cannot be trusted then).
var Conflicts []string

func reg(ty string, sample error) {
	Samples[ty] = sample
	t := reflect.TypeOf(sample).String()
	if old, ok := GoType2Ty[t]; ok && old != ty {
		Conflicts = append(Conflicts, t+": "+old+" / "+ty)
		return
	}
	GoType2Ty[t] = ty
	k := string(errors.GetTypeKey(sample))
	Fam2Ty[k] = ty
	Ty2Fam[ty] = k
}

// TyOf gives the catalogue name of a value's Go type.
func TyOf(err error) string {
	t := reflect.TypeOf(err).String()
	if ty, ok := GoType2Ty[t]; ok {
		return ty
	}
	return "T:" + t
}

// FamOf gives the catalogue name of a live family name.
func FamOf(fam string) string {
	if ty, ok := Fam2Ty[fam]; ok {
		return ty
	}
	return "F:" + fam
}

func sortedKeys(m map[string]error) []string {
	ks := make([]string, 0, len(m))
	for k := range m {
		ks = append(ks, k)
	}
	sort.Strings(ks)
	return ks
}

// findType returns the first layer of the chain whose Go type is named name
// (whatever other layers the constructor adds around it).
func findType(err error, name string) error {
	for c := err; c != nil; c = errors.UnwrapOnce(c) {
		if strings.HasSuffix(reflect.TypeOf(c).String(), "."+name) {
			return c
		}
	}
	panic("harness: no layer of type " + name + " in " + reflect.TypeOf(err).String())
}

func unwrapTo(err error, n int) error {
	for i := 0; i < n; i++ {
		err = errors.UnwrapOnce(err)
	}
	return err
}

func init() {
	base := goerrors.New("x")
	other := pkgerrors.New("y") // an unrelated error (another type, another text)
	reg("goErr", base)
	reg("ctxDeadline", context.DeadlineExceeded)
	reg("errno", syscall.ENOENT)
	n := errors.New("x")
	reg("withStack", n)
	reg("leafError", findType(n, "leafError"))
	reg("withPrefix", errors.WithMessage(base, "p"))
	reg("withNewMessage", findType(errors.Newf("a%w", base), "withNewMessage"))
	reg("withSecondaryError", errors.WithSecondaryError(base, other))
	reg("withHint", errors.WithHint(base, "h"))
	reg("withDetail", errors.WithDetail(base, "d"))
	reg("withSafeDetails", errors.WithSafeDetails(base, "a"))
	reg("withTelemetry", errors.WithTelemetry(base, "k"))
	reg("withDomain", errors.WithDomain(base, errors.NamedDomain("d")))
	reg("withIssueLink", errors.WithIssueLink(base, errors.IssueLink{IssueURL: "u"}))
	reg("unimplementedError", issuelink.UnimplementedError(errors.IssueLink{}, "m"))
	reg("withContext", errors.WithContextTags(base, logtags.AddTag(context.Background(), "k", "v")))
	reg("withAssertionFailure", errors.WithAssertionFailure(base))
	reg("withMark", errors.Mark(base, other))
	reg("barrierErr", errors.Handled(base))
	reg("joinError", join.Join(base, other))
	reg("withHTTPCode", exthttp.WrapWithHTTPCode(base, 404))
	reg("withGrpcCode", extgrpc.WrapWithGrpcCode(base, codes.NotFound))
	reg("goWrapError", fmt.Errorf("a%w", base))
	reg("goWrapErrors", fmt.Errorf("%w%w", base, other))
	reg("goJoin", goerrors.Join(base, other))
	reg("pkgFundamental", pkgerrors.New("x"))
	reg("pkgWithMessage", pkgerrors.WithMessage(base, "m"))
	reg("pkgWithStack", pkgerrors.WithStack(base))
	reg("osPathError", &os.PathError{Op: "o", Path: "p", Err: base})
	// the type name of os.PathError is io/fs.PathError, its family (built-in
	// migration) os.PathError
	Fam2Ty["io/fs/*fs.PathError"] = "fsPathError"
	reg("osLinkError", &os.LinkError{Op: "o", Old: "a", New: "b", Err: base})
	reg("osSyscallError", os.NewSyscallError("s", base))
	reg("grpcStatus", grpcstatus.Error(codes.NotFound, "x"))
	reg("uPtrLeaf", &utypes.UPtrLeaf{})
	reg("uValLeaf", utypes.UValLeaf{})
	reg("uValPtrLeaf", &utypes.UValLeaf{})
	reg("uRegLeaf", &utypes.URegLeaf{})
	reg("uIsLeaf", &utypes.UIsLeaf{})
	reg("uIsIdLeaf", &utypes.UIsIdLeaf{})
	reg("uSafeMsgLeaf", &utypes.USafeMsgLeaf{})
	reg("uSafeDetLeaf", &utypes.USafeDetLeaf{})
	reg("uKeyLeaf", &utypes.UKeyLeaf{})
	reg("uProtoLeaf", &errorspb.TestError{})
	reg("uWrapU", &utypes.UWrapU{Err: base})
	reg("uWrapC", &utypes.UWrapC{Err: base})
	reg("uWrapUC", &utypes.UWrapUC{Err: base})
	reg("uWrapFull", &utypes.UWrapFull{Err: base})
	reg("uRegWrap", &utypes.URegWrap{Err: base})
	reg("uRegWrapFull", &utypes.URegWrapFull{Err: base})
	reg("uRegMulti", &utypes.URegMulti{Errs: []error{base}})
	reg("uMultiCause", &utypes.UMultiCause{Errs: []error{base}})
	reg("uAnnotWrap", &utypes.UAnnotWrap{Err: base})
	reg("uKeyWrap", &utypes.UKeyWrap{Err: base})
	reg("uMaybe", &utypes.UMaybe{})
	reg("uMulti", &utypes.UMulti{Errs: []error{base}})
	reg("uMultiIs", &utypes.UMultiIs{Errs: []error{base}})
	// opaque types, obtained by transferring values of types without decoder
	hop := func(e error) error {
		return errors.DecodeError(context.Background(), errors.EncodeError(context.Background(), e))
	}
	reg2 := func(ty string, sample error) { GoType2Ty[reflect.TypeOf(sample).String()] = ty }
	reg2("opaqueLeaf", hop(&utypes.UPtrLeaf{Msg: "x"}))
	reg2("opaqueWrapper", hop(&utypes.UWrapU{Pfx: "p", Err: base}))
	reg2("opaqueLeafCauses", hop(&utypes.UMulti{Msg: "m", Errs: []error{base}}))
	reg2("opaqueErrno", &errbase.OpaqueErrno{})

	// sentinels
	Sentinels["ID_ctxCanceled"] = context.Canceled
	Sentinels["ID_osErrNotExist"] = os.ErrNotExist
	Sentinels["ID_osErrExist"] = os.ErrExist
	Sentinels["ID_osErrPermission"] = os.ErrPermission
	Sentinels["ID_osErrClosed"] = os.ErrClosed
	Sentinels["ID_ioEOF"] = io.EOF
	Sentinels["ID_user"] = utypes.UserSentinel
	// deterministic order; a text shared by two names keeps the first name
	// (EACCES and os.ErrPermission print the same text: the spec names both
	// L_osErrPermission)
	for _, id := range sortedKeys(Sentinels) {
		if id != "ID_user" {
			tok.RegisterLiteral("L_"+id[3:], Sentinels[id].Error())
		}
	}
	tok.RegisterLiteral("L_ctxDeadline", context.DeadlineExceeded.Error())
	for _, name := range []string{"EACCES", "EEXIST", "EINTR", "ENOENT", "EPERM", "ETIMEDOUT"} {
		tok.RegisterLiteral("L_errno_"+name, Errnos[name].Error())
	}
	tok.RegisterLiteral("L_testError", (&errorspb.TestError{}).Error())

	// constant texts of the library, read from live values
	link := errors.WithIssueLink(base, errors.IssueLink{IssueURL: "\x01"})
	h := errors.GetAllHints(link)[0] // "See: \x01"
	tok.RegisterLiteral("L_See", h[:len(h)-1])
	ref := errors.GetAllHints(errors.WithIssueLink(base, errors.IssueLink{}))[0]
	tok.RegisterLiteral("L_IssueReferral", ref)
	ah := errors.GetAllHints(errors.WithAssertionFailure(base))[0]
	tok.RegisterLiteral("L_AssertHint", ah[:len(ah)-len(ref)])
	uh := errors.GetAllHints(issuelink.UnimplementedError(errors.IssueLink{}, "m"))[0]
	tok.RegisterLiteral("L_UnimplHint", uh[:len(uh)-len(ref)])
	fl := errors.FlattenHints(errors.WithHint(errors.WithHint(base, "\x01"), "\x02"))
	tok.RegisterLiteral("L_DashDash", fl[1:len(fl)-1])
	// a long text of multi-byte runes (600 bytes): any byte-offset truncation of a
	// message containing it is likely to fall inside a rune
	tok.RegisterLiteral("L_big", strings.Repeat("é世", 120))
	// a text longer than any size limit a reporting path might apply (4.6 KB)
	tok.RegisterLiteral("L_pad", "Y"+strings.Repeat("p", 4600)+"Y")
	tok.RegisterLiteral("L_NoDomain", string(errors.NoDomain))
	if st := grpcstatus.Error(codes.NotFound, "\x01").Error(); strings.HasSuffix(st, "\x01") {
		tok.RegisterLiteral("L_rpcNotFound", st[:len(st)-1])
	}
	// detail literals of the library's wrappers in %+v entries, from samples:
	// "x\n(1) <detail>\nWraps: (2) x\nError types: ..."
	detail := func(sample error) string {
		out := fmt.Sprintf("%+v", sample)
		i := strings.Index(out, "\n(1) ")
		j := strings.Index(out, "\nWraps: (2)")
		if i < 0 || j < 0 || j < i {
			return ""
		}
		d := out[i+len("\n(1) ") : j]
		if k := strings.IndexByte(d, '\n'); k >= 0 {
			d = d[:k]
		}
		return d
	}
	// "http code: 404" -> "http code: "
	stripDigits := func(s string) string {
		if i := strings.LastIndex(s, ": "); i >= 0 {
			return s[:i+2]
		}
		return s
	}
	DetailLit := map[string]string{
		"withStack":            detail(errors.WithStack(base)),
		"withAssertionFailure": detail(errors.WithAssertionFailure(base)),
		"withHTTPCode":         stripDigits(detail(exthttp.WrapWithHTTPCode(base, 404))),
		"withGrpcCode":         stripDigits(detail(extgrpc.WrapWithGrpcCode(base, codes.NotFound))),
		"withSecondaryError":   detail(errors.WithSecondaryError(base, base)),
		"withMark":             detail(errors.Mark(base, base)),
	}
	for k, v := range DetailLit {
		if v != "" {
			DetailLits[k] = v
		}
	}
	d := string(errors.NamedDomain("\x01")) // error domain: "\x01"
	for i := 0; i < len(d); i++ {
		if d[i] == '"' {
			tok.RegisterLiteral("L_domain", d[:i])
			break
		}
	}
}
