// Package conc runs read-only observer operations on a shared error value
// from several goroutines (C18). A goroutine started by Begin repeats its
// operation until End, so that it overlaps with every goroutine that is
// active in between; every result is compared with the result of the same
// operation executed alone beforehand. Data races are the race detector's
// business: the harness is built with -race for this family and counts the
// reports written to GORACE's log_path.
package conc

import (
	"context"
	"crypto/sha256"
	"encoding/hex"
	"encoding/json"
	"fmt"
	"os"
	"path/filepath"
	"strings"
	"sync"
	"sync/atomic"
	"time"

	goerrors "errors"

	"github.com/cockroachdb/errors"
	"github.com/cockroachdb/redact"
	"github.com/gogo/protobuf/proto"
)

// Ops are the observer operations, by name.
var Ops = map[string]func(e, other error) string{
	"error":       func(e, _ error) string { return e.Error() },
	"fmtV":        func(e, _ error) string { return fmt.Sprintf("%v", e) },
	"fmtPlusV":    func(e, _ error) string { return fmt.Sprintf("%+v", e) },
	"redactV":     func(e, _ error) string { return string(redact.Sprintf("%v", e)) },
	"redactPlusV": func(e, _ error) string { return string(redact.Sprintf("%+v", e).Redact()) },
	"encode": func(e, _ error) string {
		enc := errors.EncodeError(context.Background(), e)
		b, err := proto.Marshal(&enc)
		if err != nil {
			return "ERR:" + err.Error()
		}
		return string(b)
	},
	"isSelf":  func(e, _ error) string { return fmt.Sprint(errors.Is(e, e), errors.Is(e, errors.UnwrapAll(e))) },
	"isOther": func(e, o error) string { return fmt.Sprint(errors.Is(e, o), errors.IsAny(e, o, goerrors.New("zz"))) },
	"as": func(e, _ error) string {
		var t interface{ ErrorHint() string }
		ok := errors.As(e, &t)
		return fmt.Sprint(ok, errors.HasType(e, goerrors.New("x")))
	},
	"safeDetails": func(e, _ error) string {
		b, _ := json.Marshal(errors.GetAllSafeDetails(e))
		return string(b)
	},
	"hints": func(e, _ error) string {
		return errors.FlattenHints(e) + "|" + errors.FlattenDetails(e) + "|" + fmt.Sprint(errors.GetTelemetryKeys(e) == nil)
	},
	"report": func(e, _ error) string {
		ev, extras := errors.BuildSentryReport(e)
		ev.EventID, ev.Timestamp = "", time.Time{}
		b1, _ := json.Marshal(ev)
		b2, _ := json.Marshal(extras)
		return string(b1) + string(b2)
	},
}

func hash(s string) string {
	h := sha256.Sum256([]byte(s))
	return hex.EncodeToString(h[:8])
}

type worker struct {
	op    string
	stop  int32
	done  chan struct{}
	iters int64
	bad   int64
	panic string
}

// Run is the set of active goroutines on one shared value.
type Run struct {
	mu      sync.Mutex
	workers map[int]*worker
	// goroutines begun one after the other wait here and are released
	// together at the first End: their first calls overlap
	gate chan struct{}
}

// Release lets the waiting goroutines go.
func (r *Run) Release() {
	r.mu.Lock()
	if r.gate != nil {
		close(r.gate)
		r.gate = nil
	}
	r.mu.Unlock()
}

// NewRun creates an empty run.
func NewRun() *Run { return &Run{workers: map[int]*worker{}} }

func safeOp(op string, e, other error) (res string, p string) {
	defer func() {
		if r := recover(); r != nil {
			p = fmt.Sprint(r)
		}
	}()
	return hash(Ops[op](e, other)), ""
}

// Begin starts goroutine g repeating op on the shared value until End(g).
// (e, other) are built by the same steps as (shared, sharedOther), or are the same.
func (r *Run) Begin(g int, op string, e, other, shared, sharedOther error) {
	seq, _ := safeOp(op, e, other) // the result of the operation executed alone
	w := &worker{op: op, done: make(chan struct{})}
	r.mu.Lock()
	r.workers[g] = w
	if r.gate == nil {
		r.gate = make(chan struct{})
	}
	gate := r.gate
	r.mu.Unlock()
	started := make(chan struct{})
	e, other = shared, sharedOther
	go func() {
		defer close(w.done)
		close(started)
		<-gate
		for {
			res, p := safeOp(op, e, other)
			atomic.AddInt64(&w.iters, 1)
			if p != "" {
				w.panic = p
				return
			}
			if res != seq {
				atomic.AddInt64(&w.bad, 1)
			}
			if atomic.LoadInt32(&w.stop) != 0 && atomic.LoadInt64(&w.iters) >= 3 {
				return
			}
		}
	}()
	<-started
}

// Result of one goroutine.
type Result struct {
	G     int    `json:"g"`
	Op    string `json:"op"`
	Iters int    `json:"iters"`
	Bad   int    `json:"bad"`   // results differing from the result of the operation executed alone
	Panic string `json:"panic"` // panic text, if any
	Races int    `json:"races"` // data race reports written since the last check
}

// End stops goroutine g and reports.
func (r *Run) End(g int) *Result {
	r.mu.Lock()
	w := r.workers[g]
	delete(r.workers, g)
	r.mu.Unlock()
	if w == nil {
		return &Result{G: g, Panic: "harness: no such goroutine"}
	}
	r.Release()
	atomic.StoreInt32(&w.stop, 1)
	<-w.done
	return &Result{G: g, Op: w.op, Iters: int(w.iters), Bad: int(w.bad), Panic: w.panic, Races: NewRaces()}
}

// Storm runs n goroutines, each cycling through all operations for the given
// duration, on the shared value.
func Storm(n int, d time.Duration, e, other, shared, sharedOther error) *Result {
	var names []string
	for k := range Ops {
		names = append(names, k)
	}
	seq := map[string]string{}
	for _, k := range names {
		seq[k], _ = safeOp(k, e, other)
	}
	var wg sync.WaitGroup
	var bad, iters int64
	var pmu sync.Mutex
	pan := ""
	deadline := time.Now().Add(d)
	e, other = shared, sharedOther
	start := make(chan struct{})
	for i := 0; i < n; i++ {
		wg.Add(1)
		go func(i int) {
			defer wg.Done()
			<-start
			for j := i; time.Now().Before(deadline) || j < i+len(names); j++ {
				k := names[j%len(names)]
				res, p := safeOp(k, e, other)
				atomic.AddInt64(&iters, 1)
				if p != "" {
					pmu.Lock()
					pan = p
					pmu.Unlock()
					return
				}
				if res != seq[k] {
					atomic.AddInt64(&bad, 1)
				}
			}
		}(i)
	}
	close(start)
	wg.Wait()
	return &Result{G: n, Op: "storm", Iters: int(iters), Bad: int(bad), Panic: pan, Races: NewRaces()}
}

var seenRaces int

// NewRaces counts the data race reports written to GORACE's log_path since
// the previous call.
func NewRaces() int {
	lp := ""
	for _, kv := range strings.Fields(os.Getenv("GORACE")) {
		if strings.HasPrefix(kv, "log_path=") {
			lp = strings.TrimPrefix(kv, "log_path=")
		}
	}
	if lp == "" {
		return 0
	}
	files, _ := filepath.Glob(lp + ".*")
	total := 0
	for _, f := range files {
		b, err := os.ReadFile(f)
		if err == nil {
			total += strings.Count(string(b), "WARNING: DATA RACE")
		}
	}
	n := total - seenRaces
	seenRaces = total
	return n
}
