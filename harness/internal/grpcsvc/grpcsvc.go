// Package grpcsvc runs the repository's Echoer service on an in-memory
// listener behind the real UnaryServerInterceptor, with two clients: one
// with the real UnaryClientInterceptor, one without any (to see the raw
// gRPC status) — C20.
package grpcsvc

import (
	"context"
	"net"
	"sync"
	"time"

	egrpc "github.com/cockroachdb/errors/grpc"
	"github.com/cockroachdb/errors/grpc/middleware"
	"github.com/hydrogen18/memlistener"
	"google.golang.org/grpc"
	"google.golang.org/grpc/codes"
	"google.golang.org/grpc/status"
)

type server struct {
	mu   sync.Mutex
	next error
}

func (s *server) Echo(ctx context.Context, req *egrpc.EchoRequest) (*egrpc.EchoReply, error) {
	s.mu.Lock()
	defer s.mu.Unlock()
	if s.next != nil {
		return nil, s.next
	}
	return &egrpc.EchoReply{Reply: "echoing: " + req.Text}, nil
}

var (
	once   sync.Once
	srv    = &server{}
	client egrpc.EchoerClient // with the library's client interceptor
	raw    egrpc.EchoerClient // without
)

func start() {
	lis := memlistener.NewMemoryListener()
	gs := grpc.NewServer(grpc.UnaryInterceptor(middleware.UnaryServerInterceptor))
	egrpc.RegisterEchoerServer(gs, srv)
	go gs.Serve(lis)
	dial := func(opts ...grpc.DialOption) *grpc.ClientConn {
		opts = append(opts,
			grpc.WithDialer(func(string, time.Duration) (net.Conn, error) { return lis.Dial("", "") }),
			grpc.WithInsecure())
		cc, err := grpc.Dial("", opts...)
		if err != nil {
			panic("harness: grpc dial: " + err.Error())
		}
		return cc
	}
	client = egrpc.NewEchoerClient(dial(grpc.WithUnaryInterceptor(middleware.UnaryClientInterceptor)))
	raw = egrpc.NewEchoerClient(dial())
}

// Result of one call.
type Result struct {
	Err     error      // what the caller behind the client interceptor receives
	RawCode codes.Code // gRPC status code visible to a caller without interceptor
	RawMsg  string
	Reply   string
}

// Call makes the handler return e and performs the RPC through both clients.
func Call(e error) *Result {
	once.Do(start)
	srv.mu.Lock()
	srv.next = e
	srv.mu.Unlock()
	ctx, cancel := context.WithTimeout(context.Background(), 20*time.Second)
	defer cancel()
	r := &Result{}
	rep, err := client.Echo(ctx, &egrpc.EchoRequest{Text: "x"})
	r.Err = err
	if rep != nil {
		r.Reply = rep.Reply
	}
	_, rerr := raw.Echo(ctx, &egrpc.EchoRequest{Text: "x"})
	st, _ := status.FromError(rerr)
	r.RawCode = st.Code()
	r.RawMsg = st.Message()
	return r
}
