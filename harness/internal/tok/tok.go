// Package tok maps between the token sequences of the specification
// (spec/Strings.tla) and concrete strings, in both directions.
//
// Concretisations are chosen so that every token starts with a byte that
// occurs nowhere else inside any token; byte-level prefix / suffix /
// substring relations then coincide with token-level ones (DESIGN 3.1).
package tok

import (
	"fmt"
	"sort"
	"strconv"
	"strings"
	"unicode/utf8"
)

// Variant selects the concretisation of words: 0 = ASCII, 1 = multi-byte.
var Variant = 0

var (
	lit2tok = map[string]string{}
	tok2lit = map[string]string{}
	litKeys []string // sorted longest first
)

// RegisterLiteral declares that the constant text lit is the token name.
// Literals are taken from the live library by the caller, never copied.
func RegisterLiteral(name, lit string) {
	if lit == "" {
		return
	}
	if old, ok := lit2tok[lit]; ok && old != name {
		// Two names for one text: keep the first (deterministic).
		tok2lit[name] = lit
		return
	}
	lit2tok[lit] = name
	tok2lit[name] = lit
	litKeys = append(litKeys, lit)
	sort.Slice(litKeys, func(i, j int) bool {
		if len(litKeys[i]) != len(litKeys[j]) {
			return len(litKeys[i]) > len(litKeys[j])
		}
		return litKeys[i] < litKeys[j]
	})
}

// Word returns the concrete text of word token w<k>.
func Word(k int) string {
	if Variant == 1 {
		return "Zé" + strconv.Itoa(k) + "世"
	}
	return "Zq" + strconv.Itoa(k) + "x"
}

// One returns the concrete text of one token.
func One(t string) string {
	switch t {
	case "SEP":
		return ": "
	case "NL":
		return "\n"
	case "SP":
		return " "
	case "PCT":
		return "%d"
	case "QT":
		return "\""
	case "MO":
		return "‹"
	case "MC":
		return "›"
	case "RM":
		return "‹×›"
	case "NUL":
		return "\x00"
	case "BAD":
		return "\xff"
	}
	if strings.HasPrefix(t, "w") {
		if k, err := strconv.Atoi(t[1:]); err == nil {
			return Word(k)
		}
	}
	if strings.HasPrefix(t, "n") {
		if _, err := strconv.Atoi(t[1:]); err == nil {
			return t[1:]
		}
	}
	if l, ok := tok2lit[t]; ok {
		return l
	}
	panic(fmt.Sprintf("tok: unknown token %q", t))
}

// Str concretises a token sequence.
func Str(ts []string) string {
	var b strings.Builder
	for _, t := range ts {
		b.WriteString(One(t))
	}
	return b.String()
}

// FmtEscape concretises a token sequence for use inside a printf format.
func FmtEscape(ts []string) string {
	return strings.ReplaceAll(Str(ts), "%", "%%")
}

// Num returns the integer of a numeric token "n<k>".
func Num(t string) int {
	k, err := strconv.Atoi(strings.TrimPrefix(t, "n"))
	if err != nil {
		panic("tok: not a number token: " + t)
	}
	return k
}

func wordAt(s string) (string, int) {
	// Z (q|é) digits (x|世)
	if !strings.HasPrefix(s, "Z") {
		return "", 0
	}
	i := 1
	switch {
	case strings.HasPrefix(s[i:], "q"):
		i++
	case strings.HasPrefix(s[i:], "é"):
		i += len("é")
	default:
		return "", 0
	}
	j := i
	for j < len(s) && s[j] >= '0' && s[j] <= '9' {
		j++
	}
	if j == i {
		return "", 0
	}
	switch {
	case strings.HasPrefix(s[j:], "x"):
		return "w" + s[i:j], j + 1
	case strings.HasPrefix(s[j:], "世"):
		return "w" + s[i:j], j + len("世")
	}
	return "", 0
}

// Lex abstracts a concrete string back into tokens. Text that is not a
// concretisation of any token becomes an "X:<text>" token (ASCII-escaped).
func Lex(s string) []string {
	out := []string{}
	var unk strings.Builder
	flush := func() {
		if unk.Len() > 0 {
			out = append(out, "X:"+strconv.QuoteToASCII(unk.String()))
			unk.Reset()
		}
	}
	for len(s) > 0 {
		matched := false
		for _, l := range litKeys {
			if strings.HasPrefix(s, l) {
				flush()
				out = append(out, lit2tok[l])
				s = s[len(l):]
				matched = true
				break
			}
		}
		if matched {
			continue
		}
		if w, n := wordAt(s); n > 0 {
			flush()
			out = append(out, w)
			s = s[n:]
			continue
		}
		type fixed struct{ txt, name string }
		for _, f := range []fixed{
			{": ", "SEP"}, {"\n", "NL"}, {" ", "SP"}, {"%d", "PCT"}, {"\"", "QT"},
			{"‹×›", "RM"}, {"‹", "MO"}, {"›", "MC"}, {"\x00", "NUL"},
		} {
			if strings.HasPrefix(s, f.txt) {
				flush()
				out = append(out, f.name)
				s = s[len(f.txt):]
				matched = true
				break
			}
		}
		if matched {
			continue
		}
		if s[0] >= '0' && s[0] <= '9' {
			j := 0
			for j < len(s) && s[j] >= '0' && s[j] <= '9' {
				j++
			}
			flush()
			out = append(out, "n"+s[:j])
			s = s[j:]
			continue
		}
		r, n := utf8.DecodeRuneInString(s)
		if r == utf8.RuneError && n == 1 {
			flush()
			out = append(out, "BAD")
			s = s[1:]
			continue
		}
		unk.WriteString(s[:n])
		s = s[n:]
	}
	flush()
	return out
}

// Words returns the word tokens ("w<k>") occurring in s, even when glued to
// other text.
func Words(s string) []string {
	seen := map[string]bool{}
	out := []string{}
	for i := 0; i < len(s); i++ {
		if s[i] == 'Z' {
			if w, n := wordAt(s[i:]); n > 0 {
				if !seen[w] {
					seen[w] = true
					out = append(out, w)
				}
				i += n - 1
			}
		}
	}
	sort.Strings(out)
	return out
}

// WordAt recognises a word at the start of s: token name and byte length (0 if none).
func WordAt(s string) (string, int) { return wordAt(s) }
