// Package mig simulates processes built from different versions of a
// program in which an error type was renamed (C17): each process has its
// own rename registry (installed through the verif hook) and its own
// decoders (registered through the public API while the process is active).
package mig

import (
	"context"
	"fmt"
	"reflect"

	"github.com/cockroachdb/errors"
	"github.com/cockroachdb/errors/errbase"
	"github.com/cockroachdb/errors/errorspb"
	"github.com/gogo/protobuf/proto"
)

// The renamed lineage: URenA was renamed URenB (or URenQ), then URenC, then URenD.
type URenA struct{ Msg string }
type URenB struct{ Msg string }
type URenC struct{ Msg string }
type URenQ struct{ Msg string }
type URenD struct{ Msg string }

func (e *URenA) Error() string { return e.Msg }
func (e *URenB) Error() string { return e.Msg }
func (e *URenC) Error() string { return e.Msg }
func (e *URenQ) Error() string { return e.Msg }
func (e *URenD) Error() string { return e.Msg }

const pkgPath = "verifharness/internal/mig"

func sample(ty string) error {
	switch ty {
	case "uRenA":
		return &URenA{}
	case "uRenB":
		return &URenB{}
	case "uRenC":
		return &URenC{}
	case "uRenQ":
		return &URenQ{}
	case "uRenD":
		return &URenD{}
	}
	panic("harness: unknown lineage type " + ty)
}

func mk(ty, msg string) error {
	switch ty {
	case "uRenA":
		return &URenA{Msg: msg}
	case "uRenB":
		return &URenB{Msg: msg}
	case "uRenC":
		return &URenC{Msg: msg}
	case "uRenQ":
		return &URenQ{Msg: msg}
	case "uRenD":
		return &URenD{Msg: msg}
	}
	panic("harness: unknown lineage type " + ty)
}

// TyName abstracts a Go value / a family name of the lineage.
func TyName(s string) string {
	for _, ty := range []string{"uRenA", "uRenB", "uRenC", "uRenQ", "uRenD"} {
		t := reflect.TypeOf(sample(ty)).String() // *mig.URenA
		if s == t || s == pkgPath+"/"+t {
			return ty
		}
	}
	return ""
}

// Proc is one build of the program.
type Proc struct {
	Migs map[errbase.TypeKey]errbase.TypeKey
	Tys  []string
}

// World holds the processes and the owner of every slot.
type World struct {
	Procs [4]*Proc
	Own   []int
	// the process currently installed (0 = none)
	cur     int
	restore func()
	keys    []errbase.TypeKey
}

// NewWorld creates the processes.
func NewWorld(nslots int) *World {
	w := &World{Own: make([]int, nslots+1)}
	for i := range w.Procs {
		w.Procs[i] = &Proc{Migs: map[errbase.TypeKey]errbase.TypeKey{}}
	}
	return w
}

// In runs f inside process p. Switching is lazy: consecutive steps of the same
// process run in the same installation of its registry and decoders (as they
// would in a real process), a step of another process switches over.
func (w *World) In(p int, f func()) {
	w.enter(p)
	f()
	// keep what the process registered meanwhile
	w.Procs[p].Migs = errbase.VerifMigrations()
}

func (w *World) enter(p int) {
	if w.cur == p && w.restore != nil {
		return
	}
	w.Leave()
	pr := w.Procs[p]
	w.restore = errbase.VerifSetMigrations(pr.Migs)
	w.cur = p
	for _, ty := range pr.Tys {
		ty := ty
		k := errors.GetTypeKey(sample(ty)) // under this process's renames
		w.keys = append(w.keys, k)
		errors.RegisterLeafDecoder(k, func(_ context.Context, msg string, _ []string, _ proto.Message) error {
			return mk(ty, msg)
		})
	}
}

// Leave uninstalls the current process.
func (w *World) Leave() {
	if w.restore == nil {
		return
	}
	for _, k := range w.keys {
		errors.RegisterLeafDecoder(k, nil)
	}
	w.keys = nil
	w.Procs[w.cur].Migs = errbase.VerifMigrations()
	w.restore()
	w.restore = nil
	w.cur = 0
}

// Init declares the types process p links.
func (w *World) Init(p int, tys []string) {
	if w.cur == p {
		w.Leave()
	}
	w.Procs[p] = &Proc{Migs: map[errbase.TypeKey]errbase.TypeKey{}, Tys: tys}
}

// RegMig registers the rename prev -> new in process p; reports a panic.
func (w *World) RegMig(p int, prev, new string) (panicked bool) {
	w.In(p, func() {
		defer func() {
			if r := recover(); r != nil {
				panicked = true
			}
		}()
		errors.RegisterTypeMigration(pkgPath, reflect.TypeOf(sample(prev)).String(), sample(new))
	})
	// the process registers its decoders after its migrations: under the new keys
	for _, k := range w.keys {
		errors.RegisterLeafDecoder(k, nil)
	}
	w.keys = nil
	for _, ty := range w.Procs[p].Tys {
		ty := ty
		k := errors.GetTypeKey(sample(ty))
		w.keys = append(w.keys, k)
		errors.RegisterLeafDecoder(k, func(_ context.Context, msg string, _ []string, _ proto.Message) error {
			return mk(ty, msg)
		})
	}
	return panicked
}

// MkLocal builds a value of type ty in process p.
func (w *World) MkLocal(p int, ty, msg string) error { return mk(ty, msg) }

// Xfer encodes e in process p and decodes the bytes in process q.
func (w *World) Xfer(e error, p, q int) (res error) {
	var b []byte
	w.In(p, func() {
		enc := errors.EncodeError(context.Background(), e)
		var err error
		b, err = proto.Marshal(&enc)
		if err != nil {
			panic("harness: marshal: " + err.Error())
		}
	})
	w.In(q, func() {
		var dec errorspb.EncodedError
		if err := proto.Unmarshal(b, &dec); err != nil {
			panic("harness: unmarshal: " + err.Error())
		}
		res = errors.DecodeError(context.Background(), dec)
	})
	return res
}

// Obs is what is observed of a slot in its owner process.
type Obs struct {
	Panic bool     `json:"panic"`
	Ty    string   `json:"ty"`
	Fam   string   `json:"fam"`
	Is    []string `json:"is"`
}

// Observe computes the observation of slot i.
func (w *World) Observe(slots []error, i int) *Obs {
	o := &Obs{Is: make([]string, len(slots)-1)}
	e := slots[i]
	p := w.Own[i]
	if e == nil {
		return o
	}
	w.In(p, func() {
		o.Ty = TyName(reflect.TypeOf(e).String())
		if o.Ty == "" {
			o.Ty = "T:" + reflect.TypeOf(e).String()
			if fmt.Sprintf("%T", e) == "*errbase.opaqueLeaf" {
				o.Ty = "opaqueLeaf"
			}
		}
		k := string(errors.GetTypeKey(e))
		if n := TyName(k); n != "" {
			o.Fam = n
		} else {
			o.Fam = "F:" + k
		}
		for j := 1; j < len(slots); j++ {
			switch {
			case slots[j] == nil || w.Own[j] != p:
				o.Is[j-1] = "-"
			case errors.Is(e, slots[j]):
				o.Is[j-1] = "T"
			default:
				o.Is[j-1] = "F"
			}
		}
	})
	return o
}
