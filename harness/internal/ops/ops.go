// Package ops executes the steps of a behaviour against the real library,
// through its public API only.
package ops

import (
	"context"
	goerrors "errors"
	"fmt"
	"os"
	"strings"
	"time"

	"github.com/cockroachdb/errors"
	"github.com/cockroachdb/errors/errorspb"
	"github.com/cockroachdb/errors/extgrpc"
	"github.com/cockroachdb/errors/exthttp"
	"github.com/cockroachdb/errors/issuelink"
	"github.com/cockroachdb/errors/join"
	"github.com/cockroachdb/logtags"
	pkgerrors "github.com/pkg/errors"
	"google.golang.org/grpc/codes"
	grpcstatus "google.golang.org/grpc/status"

	"verifharness/internal/cat"
	"verifharness/internal/conc"
	"verifharness/internal/faults"
	"verifharness/internal/grpcsvc"
	"verifharness/internal/mig"
	"verifharness/internal/p1"
	"verifharness/internal/p4"
	"verifharness/internal/tok"
	"verifharness/internal/utypes"
	"verifharness/internal/wire"
)

// Part is one piece of a printf-style call.
type Part struct {
	K string   `json:"k"` // lit | arg | safe | err | w
	S []string `json:"s"`
	R int      `json:"r"`
}

// Step is one action of the specification with its arguments.
type Step struct {
	Op    string     `json:"op"`
	Dst   int        `json:"dst"`
	Src   []int      `json:"src"`
	S     []string   `json:"s"`
	A     [][]string `json:"a"`
	Parts []Part     `json:"parts"`
	N     int        `json:"n"`
	Known []string   `json:"known"`
}

// Env is the state of the harness: the slots.
type Env struct {
	Slots []error // index 0 unused
	// Steps counts the executed steps.
	Steps int
	// HopN counts the hops each slot's value has made since it was built.
	HopN []int
	// Info about the last Hop executed.
	LastHop *wire.HopInfo
	// Result of the last StackCall.
	LastStack *p1.Result
	// Concurrent observers (C18).  Twin, when set, holds values built by the
	// same steps that nothing has looked at yet: the goroutines share those,
	// the result of an operation executed alone comes from this environment's.
	Twin     *Env
	Conc     *conc.Run
	LastConc *conc.Result
	// Result of the last Grpc call.
	LastGrpc *grpcsvc.Result
	// Processes of the migration family.
	World *mig.World
	// RegMig: the registration panicked.
	LastRegPanic bool
}

//go:noinline
func viaA(f func() error) error { return f() }

//go:noinline
func viaB(f func() error) error { return f() }

// NewEnv creates an environment with n empty slots.
func NewEnv(n int) *Env {
	return &Env{Slots: make([]error, n+1), HopN: make([]int, n+1), World: mig.NewWorld(n)}
}

// ExecConc performs a step of the concurrency family: st.N is the goroutine
// (CStorm: the number of goroutines), st.S[0] the operation, st.Src[0] the
// shared slot, st.Src[1] (optional) a second value used as reference.
func (env *Env) ExecConc(st *Step) (panicked string) {
	defer func() {
		if r := recover(); r != nil {
			panicked = fmt.Sprint(r)
		}
	}()
	if env.Conc == nil {
		env.Conc = conc.NewRun()
	}
	e := env.src(st, 0)
	other := env.src(st, 1)
	if other == nil {
		other = goerrors.New("Zq77x")
	}
	shared, sharedOther := e, other
	if env.Twin != nil {
		shared = env.Twin.src(st, 0)
		if o := env.Twin.src(st, 1); o != nil {
			sharedOther = o
		}
	}
	switch st.Op {
	case "CBegin":
		env.Conc.Begin(st.N, st.S[0], e, other, shared, sharedOther)
		env.LastConc = nil
	case "CEnd":
		env.LastConc = env.Conc.End(st.N)
	case "CStorm":
		env.Conc.Release()
		env.LastConc = conc.Storm(st.N, 150*time.Millisecond, e, other, shared, sharedOther)
	}
	return ""
}

// ExecMig performs a step of the migration family.
func (env *Env) ExecMig(st *Step) (panicked string) {
	defer func() {
		if r := recover(); r != nil {
			panicked = fmt.Sprint(r)
		}
	}()
	w := env.World
	switch st.Op {
	case "ProcInit":
		w.Init(st.N, st.S)
	case "RegMig":
		env.LastRegPanic = w.RegMig(st.N, st.S[0], st.S[1])
	case "MkLocal":
		env.Slots[st.Dst] = w.MkLocal(st.N, st.A[0][0], tok.Str(st.S))
		w.Own[st.Dst] = st.N
	case "Xfer":
		p, q := st.N/10, st.N%10
		env.Slots[st.Dst] = w.Xfer(env.Slots[st.Src[0]], p, q)
		w.Own[st.Dst] = q
	case "Probe":
	default:
		panic("harness: unknown migration op " + st.Op)
	}
	return ""
}

func (env *Env) src(st *Step, i int) error {
	if len(st.Src) <= i {
		return nil
	}
	return env.Slots[st.Src[i]]
}

// format builds the printf format and arguments of a parts list.
func (env *Env) format(parts []Part) (string, []interface{}) {
	f := ""
	var args []interface{}
	for _, p := range parts {
		switch p.K {
		case "lit":
			f += tok.FmtEscape(p.S)
		case "arg":
			f += "%s"
			args = append(args, tok.Str(p.S))
		case "safe":
			f += "%s"
			args = append(args, errors.Safe(tok.Str(p.S)))
		case "xsafe":
			// an extra Safe() argument without a verb in the format
			args = append(args, errors.Safe(tok.Str(p.S)))
		case "err":
			f += "%v"
			args = append(args, env.Slots[p.R])
		case "w":
			f += "%w"
			args = append(args, env.Slots[p.R])
		default:
			panic("unknown part kind " + p.K)
		}
	}
	return f, args
}

func strs(a [][]string) []string {
	out := make([]string, len(a))
	for i, x := range a {
		out[i] = tok.Str(x)
	}
	return out
}

func at(a [][]string, i int) string {
	if i < len(a) {
		return tok.Str(a[i])
	}
	return ""
}

// Exec performs one step and stores the result in the destination slot.
// A panic in the library is returned as text.
func (env *Env) Exec(st *Step) (panicked string) {
	defer func() {
		if r := recover(); r != nil {
			panicked = fmt.Sprint(r)
		}
	}()
	env.LastHop = nil
	n := 0
	if (st.Op == "Hop" || st.Op == "Copy") && len(st.Src) > 0 {
		n = env.HopN[st.Src[0]]
	}
	// constructor calls reach the library through two alternating call paths, so
	// that stacks captured at the same call site differ below it
	env.Steps++
	if env.Steps%2 == 0 {
		env.Slots[st.Dst] = viaA(func() error { return env.build(st) })
	} else {
		env.Slots[st.Dst] = viaB(func() error { return env.build(st) })
	}
	if st.Op == "Hop" {
		n++
	}
	env.HopN[st.Dst] = n
	return ""
}

func (env *Env) build(st *Step) error {
	e := env.src(st, 0)
	x := env.src(st, 1)
	s := ""
	if st.Op != "DecodeFault" && st.Op != "StackCall" {
		s = tok.Str(st.S)
	}
	switch st.Op {
	case "StackCall":
		var r p1.Result
		if len(st.A) > 0 && len(st.A[0]) == 1 && st.A[0][0] == "deep" {
			// the same call path below forty more frames (a stack deeper than any capture buffer)
			r = p4.Deep(40, st.S[0], st.N)
		} else {
			r = p4.F4(st.S[0], st.N)
		}
		env.LastStack = &r
		if r.Err != nil {
			return r.Err
		}
		return goerrors.New("domain only")
	case "DecodeFault":
		nd := 0
		if d := st.A[3][0]; strings.HasPrefix(d, "s") {
			// stack-like reportable strings
			nd = -tok.Num("n" + d[1:])
		} else {
			nd = tok.Num(d)
		}
		enc := faults.Build(st.S[0], st.A[0][0], st.A[1][0], st.A[2][0], nd, tok.Num(st.A[4][0]))
		res, p := faults.Decode(enc)
		if p != "" {
			panic(p)
		}
		return res
	case "DecodeFuzz":
		res, p := faults.Decode(faults.Fuzz(st.N))
		if p != "" {
			panic(p)
		}
		return res
	case "GoNew":
		return goerrors.New(s)
	case "Sentinel":
		return cat.Sentinels[st.A[0][0]]
	case "CtxDeadline":
		return context.DeadlineExceeded
	case "Errno":
		return cat.Errnos[st.A[0][0]]
	case "New":
		return errors.New(s)
	case "Newf":
		f, args := env.format(st.Parts)
		return errors.Newf(f, args...)
	case "PkgNew":
		return pkgerrors.New(s)
	case "Unimplemented":
		return errors.UnimplementedError(errors.IssueLink{IssueURL: at(st.A, 0), Detail: at(st.A, 1)}, s)
	case "AssertionFailedf":
		f, args := env.format(st.Parts)
		return errors.AssertionFailedf(f, args...)
	case "ULeaf":
		switch st.A[0][0] {
		case "uPtrLeaf":
			return &utypes.UPtrLeaf{Msg: s}
		case "uValLeaf":
			return utypes.UValLeaf{Msg: s, Extra: []int{1}}
		case "uValPtrLeaf":
			// the same value type, stored by pointer
			return &utypes.UValLeaf{Msg: s, Extra: []int{2}}
		case "uRegLeaf":
			return &utypes.URegLeaf{Msg: s}
		case "uIsLeaf":
			return &utypes.UIsLeaf{Msg: s, Tag: at(st.A, 1)}
		case "uIsIdLeaf":
			return &utypes.UIsIdLeaf{Msg: s}
		case "uSafeMsgLeaf":
			return &utypes.USafeMsgLeaf{Msg: s, Safe: at(st.A, 1)}
		case "uKeyLeaf":
			return &utypes.UKeyLeaf{Msg: s, Key: at(st.A, 1)}
		case "uSafeDetLeaf":
			return &utypes.USafeDetLeaf{Msg: s, Det: at(st.A, 1)}
		case "uProtoLeaf":
			return &errorspb.TestError{}
		case "uMaybe":
			return &utypes.UMaybe{Msg: s}
		}
		panic("harness: unknown ULeaf kind " + st.A[0][0])
	case "Wrap":
		return errors.Wrap(e, s)
	case "Wrapf":
		f, args := env.format(st.Parts)
		return errors.Wrapf(e, f, args...)
	case "WithMessage":
		return errors.WithMessage(e, s)
	case "WithStack":
		return errors.WithStack(e)
	case "WithMessagef":
		f, args := env.format(st.Parts)
		return errors.WithMessagef(e, f, args...)
	case "WithHintf":
		f, args := env.format(st.Parts)
		return errors.WithHintf(e, f, args...)
	case "WithDetailf":
		f, args := env.format(st.Parts)
		return errors.WithDetailf(e, f, args...)
	case "UnimplementedErrorf":
		f, args := env.format(st.Parts)
		return errors.UnimplementedErrorf(errors.IssueLink{IssueURL: at(st.A, 0), Detail: at(st.A, 1)}, f, args...)
	case "WithHint":
		return errors.WithHint(e, s)
	case "WithDetail":
		return errors.WithDetail(e, s)
	case "WithSafeDetails":
		f, args := env.format(st.Parts)
		return errors.WithSafeDetails(e, f, args...)
	case "WithTelemetry":
		return errors.WithTelemetry(e, strs(st.A)...)
	case "WithDomain":
		return errors.WithDomain(e, errors.NamedDomain(s))
	case "WithIssueLink":
		return errors.WithIssueLink(e, errors.IssueLink{IssueURL: at(st.A, 0), Detail: at(st.A, 1)})
	case "WithContextTags":
		ctx := context.Background()
		if len(st.A) == 1 && len(st.A[0]) == 1 && st.A[0][0] == "EMPTYBUF" {
			// a tag buffer that exists but holds no tag
			return errors.WithContextTags(e, logtags.WithTags(ctx, &logtags.Buffer{}))
		}
		for i := 0; i+1 < len(st.A); i += 2 {
			v := st.A[i+1]
			var val interface{}
			switch {
			case len(v) == 1 && v[0] == "NILV":
				val = nil // value-less tag
			case len(v) >= 1 && v[0] == "SAFEV":
				val = errors.Safe(tok.Str(v[1:]))
			case len(v) == 1 && strings.HasPrefix(v[0], "n"):
				val = tok.Num(v[0])
			default:
				val = tok.Str(v)
			}
			ctx = logtags.AddTag(ctx, tok.Str(st.A[i]), val)
		}
		return errors.WithContextTags(e, ctx)
	case "WithAssertionFailure":
		return errors.WithAssertionFailure(e)
	case "Mark":
		return errors.Mark(e, x)
	case "WithSecondaryError":
		return errors.WithSecondaryError(e, x)
	case "CombineErrors":
		return errors.CombineErrors(e, x)
	case "Handled":
		return errors.Handled(e)
	case "Opaque":
		return errors.Opaque(e)
	case "HandledWithMessage":
		return errors.HandledWithMessage(e, s)
	case "HandledInDomain":
		return errors.HandledInDomain(e, errors.NamedDomain(s))
	case "HandledInDomainWithMessage":
		return errors.HandledInDomainWithMessage(e, errors.NamedDomain(at(st.A, 0)), s)
	case "EnsureNotInDomain":
		var forbidden []errors.Domain
		for _, a := range st.A {
			if len(a) == 1 && a[0] == "NODOM" {
				forbidden = append(forbidden, errors.NoDomain)
			} else {
				forbidden = append(forbidden, errors.NamedDomain(tok.Str(a)))
			}
		}
		return errors.EnsureNotInDomain(e, func(_ errors.Domain, err error) error {
			return errors.HandledInDomain(err, errors.NamedDomain(s))
		}, forbidden...)
	case "HandleAsAssertionFailure":
		return errors.HandleAsAssertionFailure(e)
	case "NewAssertionErrorWithWrappedErrf":
		f, args := env.format(st.Parts)
		return errors.NewAssertionErrorWithWrappedErrf(e, f, args...)
	case "WrapWithHTTPCode":
		return exthttp.WrapWithHTTPCode(e, tok.Num(st.A[0][0]))
	case "WrapWithGrpcCode":
		return extgrpc.WrapWithGrpcCode(e, codes.Code(tok.Num(st.A[0][0])))
	case "GoWrap":
		return fmt.Errorf(tok.FmtEscape(st.S)+"%w"+tok.FmtEscape(st.A[0]), e)
	case "PkgWithMessage":
		return pkgerrors.WithMessage(e, s)
	case "PkgWithStack":
		return pkgerrors.WithStack(e)
	case "PkgWrap":
		return pkgerrors.Wrap(e, s)
	case "OsPathError":
		return &os.PathError{Op: at(st.A, 0), Path: at(st.A, 1), Err: e}
	case "OsLinkError":
		return &os.LinkError{Op: at(st.A, 0), Old: at(st.A, 1), New: at(st.A, 2), Err: e}
	case "OsSyscallError":
		return os.NewSyscallError(s, e)
	case "UWrap":
		switch st.A[0][0] {
		case "uWrapU":
			return &utypes.UWrapU{Pfx: s, Err: e}
		case "uWrapC":
			return &utypes.UWrapC{Pfx: s, Err: e}
		case "uWrapUC":
			return &utypes.UWrapUC{Pfx: s, Err: e}
		case "uWrapFull":
			return &utypes.UWrapFull{Msg: s, Err: e}
		case "uRegWrap":
			return &utypes.URegWrap{Pfx: s, Err: e}
		case "uRegWrapFull":
			return &utypes.URegWrapFull{Msg: s, Err: e}
		case "uAnnotWrap":
			return &utypes.UAnnotWrap{Err: e}
		case "uKeyWrap":
			return &utypes.UKeyWrap{Key: s, Err: e}
		case "uMaybe":
			return &utypes.UMaybe{Msg: s, Err: e}
		}
		panic("harness: unknown UWrap kind " + st.A[0][0])
	case "Join", "JoinPkg", "GoJoin":
		errs := make([]error, len(st.Src))
		for i, r := range st.Src {
			errs[i] = env.Slots[r]
		}
		switch st.Op {
		case "Join":
			return errors.Join(errs...)
		case "JoinPkg":
			return join.Join(errs...)
		}
		return goerrors.Join(errs...)
	case "UMulti":
		errs := make([]error, len(st.Src))
		for i, r := range st.Src {
			errs[i] = env.Slots[r]
		}
		if len(st.A) > 0 && len(st.A[0]) == 1 && st.A[0][0] == "REG" {
			return &utypes.URegMulti{Msg: s, Errs: errs}
		}
		if len(st.A) > 0 && len(st.A[0]) == 1 && st.A[0][0] == "CAUSE" {
			return &utypes.UMultiCause{Msg: s, Errs: errs}
		}
		if len(st.A) > 0 {
			return &utypes.UMultiIs{Msg: s, Tag: at(st.A, 0), Errs: errs}
		}
		return &utypes.UMulti{Msg: s, Errs: errs}
	case "GoWrap2":
		return fmt.Errorf("%w"+tok.FmtEscape(st.S)+"%w", e, x)
	case "GrpcStatus":
		return grpcstatus.Error(codes.NotFound, s)
	case "Grpc":
		// the handler returns e behind the server interceptor; the caller sits
		// behind the client interceptor
		r := grpcsvc.Call(e)
		env.LastGrpc = r
		return r.Err
	case "Hop":
		if e == nil {
			return nil
		}
		res, info := wire.Hop(e, st.Known)
		env.LastHop = info
		return res
	case "Copy":
		return e
	case "Clear":
		return nil
	}
	panic("harness: unknown op " + st.Op)
}

var _ = issuelink.IssueLink{}
