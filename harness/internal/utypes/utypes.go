// Package utypes holds the user-defined error types of the catalogue
// (DESIGN 3.2): real Go types the library has no knowledge of.
package utypes

import (
	"context"
	"fmt"

	"github.com/cockroachdb/errors"
	"github.com/cockroachdb/errors/errbase"
	"github.com/cockroachdb/errors/errorspb"
	"github.com/gogo/protobuf/proto"
)

// UPtrLeaf: unregistered pointer leaf.
type UPtrLeaf struct{ Msg string }

func (e *UPtrLeaf) Error() string { return e.Msg }

// UValLeaf: unregistered value leaf that is not comparable.
type UValLeaf struct {
	Msg   string
	Extra []int
}

func (e UValLeaf) Error() string { return e.Msg }

// URegLeaf: leaf with registered encoder and decoder.
type URegLeaf struct{ Msg string }

func (e *URegLeaf) Error() string { return e.Msg }

// UIsLeaf: leaf whose Is method compares by value: it says it is any error
// whose text equals Tag.
type UIsLeaf struct{ Msg, Tag string }

func (e *UIsLeaf) Error() string { return e.Msg }
func (e *UIsLeaf) Is(ref error) bool {
	return ref != nil && safeText(ref) == e.Tag
}

func safeText(e error) (s string) {
	defer func() {
		if r := recover(); r != nil {
			s = "\x01panic"
		}
	}()
	return e.Error()
}

// UserSentinel is the object UIsIdLeaf.Is compares against by identity.
var UserSentinel = fmt.Errorf("Zq900x")

// UIsIdLeaf: leaf whose Is method compares object identity.
type UIsIdLeaf struct{ Msg string }

func (e *UIsIdLeaf) Error() string     { return e.Msg }
func (e *UIsIdLeaf) Is(ref error) bool { return ref == UserSentinel }

// USafeMsgLeaf: leaf implementing the legacy SafeMessage protocol.
type USafeMsgLeaf struct{ Msg, Safe string }

func (e *USafeMsgLeaf) Error() string       { return e.Msg }
func (e *USafeMsgLeaf) SafeMessage() string { return e.Safe }

// USafeDetLeaf: unregistered leaf reporting a caller-supplied safe detail.
type USafeDetLeaf struct{ Msg, Det string }

func (e *USafeDetLeaf) Error() string         { return e.Msg }
func (e *USafeDetLeaf) SafeDetails() []string { return []string{e.Det} }

// UKeyLeaf: unregistered leaf with an ErrorKeyMarker.
type UKeyLeaf struct{ Msg, Key string }

func (e *UKeyLeaf) Error() string          { return e.Msg }
func (e *UKeyLeaf) ErrorKeyMarker() string { return e.Key }

// UWrapU: prefix wrapper exposing only Unwrap.
type UWrapU struct {
	Pfx string
	Err error
}

func (e *UWrapU) Error() string {
	if e.Pfx == "" {
		return e.Err.Error()
	}
	return e.Pfx + ": " + e.Err.Error()
}
func (e *UWrapU) Unwrap() error { return e.Err }

// UWrapC: prefix wrapper exposing only Cause.
type UWrapC struct {
	Pfx string
	Err error
}

func (e *UWrapC) Error() string {
	if e.Pfx == "" {
		return e.Err.Error()
	}
	return e.Pfx + ": " + e.Err.Error()
}
func (e *UWrapC) Cause() error { return e.Err }

// UWrapUC: prefix wrapper exposing both.
type UWrapUC struct {
	Pfx string
	Err error
}

func (e *UWrapUC) Error() string {
	if e.Pfx == "" {
		return e.Err.Error()
	}
	return e.Pfx + ": " + e.Err.Error()
}
func (e *UWrapUC) Unwrap() error { return e.Err }
func (e *UWrapUC) Cause() error  { return e.Err }

// UWrapFull: wrapper owning the whole message.
type UWrapFull struct {
	Msg string
	Err error
}

func (e *UWrapFull) Error() string { return e.Msg }
func (e *UWrapFull) Unwrap() error { return e.Err }

// UAnnotWrap: wrapper adding nothing to the message.
type UAnnotWrap struct{ Err error }

func (e *UAnnotWrap) Error() string { return e.Err.Error() }
func (e *UAnnotWrap) Unwrap() error { return e.Err }

// UKeyWrap: wrapper with an ErrorKeyMarker.
type UKeyWrap struct {
	Key string
	Err error
}

func (e *UKeyWrap) Error() string          { return e.Err.Error() }
func (e *UKeyWrap) Unwrap() error          { return e.Err }
func (e *UKeyWrap) ErrorKeyMarker() string { return e.Key }

// UMaybe: a type that is sometimes a leaf (Err nil), sometimes a wrapper.
type UMaybe struct {
	Msg string
	Err error
}

func (e *UMaybe) Error() string {
	if e.Err == nil {
		return e.Msg
	}
	return e.Msg + ": " + e.Err.Error()
}
func (e *UMaybe) Unwrap() error { return e.Err }

// UMulti: multi-cause node with its own text.
type UMulti struct {
	Msg  string
	Errs []error
}

func (e *UMulti) Error() string   { return e.Msg }
func (e *UMulti) Unwrap() []error { return e.Errs }

func init() {
	k := errors.GetTypeKey((*URegLeaf)(nil))
	errors.RegisterLeafEncoder(k, func(_ context.Context, err error) (string, []string, proto.Message) {
		return err.Error(), nil, &errorspb.StringPayload{Msg: err.(*URegLeaf).Msg}
	})
	errors.RegisterLeafDecoder(k, func(_ context.Context, _ string, _ []string, payload proto.Message) error {
		m, ok := payload.(*errorspb.StringPayload)
		if !ok {
			return nil
		}
		return &URegLeaf{Msg: m.Msg}
	})
}

// URegWrap: prefix wrapper with a registered encoder and decoder.
type URegWrap struct {
	Pfx string
	Err error
}

func (e *URegWrap) Error() string {
	if e.Pfx == "" {
		return e.Err.Error()
	}
	return e.Pfx + ": " + e.Err.Error()
}
func (e *URegWrap) Unwrap() error { return e.Err }

// URegWrapFull: wrapper owning the whole message, registered with
// RegisterWrapperEncoderWithMessageType (FullMessage).
type URegWrapFull struct {
	Msg string
	Err error
}

func (e *URegWrapFull) Error() string { return e.Msg }
func (e *URegWrapFull) Unwrap() error { return e.Err }

// URegMulti: multi-cause node with its own text, registered with
// RegisterMultiCauseEncoder / RegisterMultiCauseDecoder.
type URegMulti struct {
	Msg  string
	Errs []error
}

func (e *URegMulti) Error() string   { return e.Msg }
func (e *URegMulti) Unwrap() []error { return e.Errs }

func init() {
	k := errors.GetTypeKey((*URegWrap)(nil))
	errors.RegisterWrapperEncoder(k, func(_ context.Context, err error) (string, []string, proto.Message) {
		w := err.(*URegWrap)
		return w.Pfx, nil, &errorspb.StringPayload{Msg: w.Pfx}
	})
	errors.RegisterWrapperDecoder(k, func(_ context.Context, cause error, _ string, _ []string, payload proto.Message) error {
		m, ok := payload.(*errorspb.StringPayload)
		if !ok {
			return nil
		}
		return &URegWrap{Pfx: m.Msg, Err: cause}
	})
	k = errors.GetTypeKey((*URegWrapFull)(nil))
	errors.RegisterWrapperEncoderWithMessageType(k, func(_ context.Context, err error) (string, []string, proto.Message, errbase.MessageType) {
		w := err.(*URegWrapFull)
		return w.Msg, nil, &errorspb.StringPayload{Msg: w.Msg}, errbase.FullMessage
	})
	errors.RegisterWrapperDecoder(k, func(_ context.Context, cause error, _ string, _ []string, payload proto.Message) error {
		m, ok := payload.(*errorspb.StringPayload)
		if !ok {
			return nil
		}
		return &URegWrapFull{Msg: m.Msg, Err: cause}
	})
	k = errors.GetTypeKey((*URegMulti)(nil))
	errors.RegisterMultiCauseEncoder(k, func(_ context.Context, err error) (string, []string, proto.Message) {
		w := err.(*URegMulti)
		return w.Msg, nil, &errorspb.StringPayload{Msg: w.Msg}
	})
	errors.RegisterMultiCauseDecoder(k, func(_ context.Context, causes []error, _ string, _ []string, payload proto.Message) error {
		m, ok := payload.(*errorspb.StringPayload)
		if !ok {
			return nil
		}
		return &URegMulti{Msg: m.Msg, Errs: causes}
	})
}

// UMultiCause: multi-cause node that also has a pkg/errors-style Cause()
// (its first branch), as a batch error written before Go 1.20 and extended later.
type UMultiCause struct {
	Msg  string
	Errs []error
}

func (e *UMultiCause) Error() string   { return e.Msg }
func (e *UMultiCause) Unwrap() []error { return e.Errs }
func (e *UMultiCause) Cause() error {
	if len(e.Errs) == 0 {
		return nil
	}
	return e.Errs[0]
}

// UMultiIs: multi-cause node with its own value-comparing Is method.
type UMultiIs struct {
	Msg, Tag string
	Errs     []error
}

func (e *UMultiIs) Error() string   { return e.Msg }
func (e *UMultiIs) Unwrap() []error { return e.Errs }
func (e *UMultiIs) Is(ref error) bool {
	return ref != nil && safeText(ref) == e.Tag
}
