// Package p2 holds user frame number 2 of the call-stack experiments (C16).
package p2

import (
	"verifharness/internal/p1"
)

// F2 calls the next frame down; the call sits on the same line as its Here().
//
//go:noinline
func F2(api string, d int) (r p1.Result) {
	r, p1.Lines[1] = p1.F1(api, d), p1.Here()
	return r
}
