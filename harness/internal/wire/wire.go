// Package wire performs network hops on real values: encode, marshal to
// protobuf bytes, unmarshal, decode — optionally at a process that does not
// know some type families (their decoders are removed for the duration of
// the decode through the verif hook, DESIGN 3.3).
package wire

import (
	"bytes"
	"context"
	"crypto/sha256"
	"encoding/hex"

	"github.com/cockroachdb/errors"
	"github.com/cockroachdb/errors/errbase"
	"github.com/cockroachdb/errors/errorspb"
	"github.com/gogo/protobuf/proto"
	"github.com/gogo/protobuf/types"

	"verifharness/internal/cat"
)

// HopInfo records what travelled.
type HopInfo struct {
	Bytes   []byte // message sent
	ReBytes []byte // re-encoding of the received value
	// Same: re-encoding reproduces the received message byte for byte.
	Same bool
	// SameModBarrier: the same, ignoring the reportable payload of barrier
	// layers (which embeds a rendering of the hidden error).
	SameModBarrier bool
	// Knowing: the receiver knew every family.
	Knowing bool
	// Direct is, for a hop through an unknowing process, the value a knowing
	// process would have decoded from the same message; Via is the value a
	// knowing process decodes from the unknowing process's re-encoding.
	Direct, Via error
}

// Hash of bytes.
func Hash(b []byte) string {
	h := sha256.Sum256(b)
	return hex.EncodeToString(h[:8])
}

// Marshal encodes and marshals.
func Marshal(e error) []byte {
	enc := errors.EncodeError(context.Background(), e)
	b, err := proto.Marshal(&enc)
	if err != nil {
		panic("harness: marshal: " + err.Error())
	}
	return b
}

// Unmarshal unmarshals and decodes.
func Unmarshal(b []byte) error {
	var dec errorspb.EncodedError
	if err := proto.Unmarshal(b, &dec); err != nil {
		panic("harness: unmarshal: " + err.Error())
	}
	return errors.DecodeError(context.Background(), dec)
}

// forget removes the decoders of every family outside known.
func forget(known []string) (restore func()) {
	ks := map[string]bool{}
	for _, k := range known {
		ks[k] = true
	}
	var del []errbase.TypeKey
	reg := errbase.VerifRegistryKeys()
	for _, name := range []string{"leafDecoders", "decoders", "multiCauseDecoders"} {
		for _, key := range reg[name] {
			if !ks[cat.FamOf(key)] {
				del = append(del, errbase.TypeKey(key))
			}
		}
	}
	return errbase.VerifForgetDecoders(del)
}

// stripBarrierRP clears the reportable payload of barrier layers, recursively
// (also inside nested payloads).
func stripBarrierRP(enc *errorspb.EncodedError) {
	if w := enc.GetWrapper(); w != nil {
		stripDetails(&w.Details)
		stripBarrierRP(&w.Cause)
		return
	}
	if l := enc.GetLeaf(); l != nil {
		if cat.FamOf(l.Details.ErrorTypeMark.FamilyName) == "barrierErr" {
			l.Details.ReportablePayload = nil
		}
		stripDetails(&l.Details)
		for _, c := range l.MultierrorCauses {
			stripBarrierRP(c)
		}
	}
}

func stripDetails(d *errorspb.EncodedErrorDetails) {
	if d.FullDetails == nil {
		return
	}
	var da types.DynamicAny
	if err := types.UnmarshalAny(d.FullDetails, &da); err != nil {
		return
	}
	if inner, ok := da.Message.(*errorspb.EncodedError); ok {
		stripBarrierRP(inner)
		if any, err := types.MarshalAny(inner); err == nil {
			d.FullDetails = any
		}
	}
}

func modBarrier(b []byte) []byte {
	var dec errorspb.EncodedError
	if err := proto.Unmarshal(b, &dec); err != nil {
		panic("harness: unmarshal: " + err.Error())
	}
	stripBarrierRP(&dec)
	out, err := proto.Marshal(&dec)
	if err != nil {
		panic("harness: marshal: " + err.Error())
	}
	return out
}

// Hop transfers e once to a process knowing the given families ("*" = all).
func Hop(e error, known []string) (error, *HopInfo) {
	knowing := false
	for _, k := range known {
		if k == "*" {
			knowing = true
		}
	}
	info := &HopInfo{Knowing: knowing}
	info.Bytes = Marshal(e)
	var res error
	if knowing {
		res = Unmarshal(info.Bytes)
	} else {
		restore := forget(known)
		func() {
			defer restore()
			res = Unmarshal(info.Bytes)
		}()
	}
	info.ReBytes = Marshal(res)
	info.Same = bytes.Equal(info.Bytes, info.ReBytes)
	info.SameModBarrier = info.Same || bytes.Equal(modBarrier(info.Bytes), modBarrier(info.ReBytes))
	if !knowing {
		info.Direct = Unmarshal(info.Bytes)
		info.Via = Unmarshal(info.ReBytes)
	}
	return res, info
}
