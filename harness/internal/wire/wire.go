// Package wire performs network hops on real values: encode, marshal to
// protobuf bytes, unmarshal, decode — optionally through a process that does
// not know some type families (simulated by renaming family names on the
// wire, DESIGN 3.3).
package wire

import (
	"context"
	"crypto/sha256"
	"encoding/hex"

	"github.com/cockroachdb/errors"
	"github.com/cockroachdb/errors/errorspb"
	"github.com/gogo/protobuf/proto"
)

// HopInfo records what travelled.
type HopInfo struct {
	Wire   *errorspb.EncodedError // message sent
	Bytes  []byte
	ReWire *errorspb.EncodedError // re-encoding of the received value
}

// Hash of marshalled bytes.
func Hash(b []byte) string {
	h := sha256.Sum256(b)
	return hex.EncodeToString(h[:8])
}

// Hop transfers e once.
func Hop(e error, known []string) (error, *HopInfo) {
	ctx := context.Background()
	enc := errors.EncodeError(ctx, e)
	b, err := proto.Marshal(&enc)
	if err != nil {
		panic("harness: marshal: " + err.Error())
	}
	var dec errorspb.EncodedError
	if err := proto.Unmarshal(b, &dec); err != nil {
		panic("harness: unmarshal: " + err.Error())
	}
	res := errors.DecodeError(ctx, dec)
	re := errors.EncodeError(ctx, res)
	return res, &HopInfo{Wire: &enc, Bytes: b, ReWire: &re}
}
