// Package proj computes the projection Obs(v) of a real error value: the
// abstract observation the specification predicts (DESIGN 3.4). It has no
// oracle and makes no judgement.
package proj

import (
	"context"
	"crypto/sha256"
	"encoding/hex"
	"encoding/json"
	"fmt"
	"reflect"
	"sort"
	"strings"
	"unsafe"

	"github.com/cockroachdb/errors"
	"github.com/cockroachdb/errors/errbase"
	"github.com/cockroachdb/errors/errorspb"
	"github.com/cockroachdb/errors/extgrpc"
	"github.com/cockroachdb/errors/exthttp"
	"github.com/cockroachdb/redact"
	"github.com/gogo/protobuf/types"
	"google.golang.org/grpc/codes"

	"verifharness/internal/cat"
	"verifharness/internal/tok"
)

// Tree is the visible cause tree.
type Tree struct {
	Ty   string   `json:"ty"`
	Fam  string   `json:"fam"`
	Ext  []string `json:"ext"`
	Text []string `json:"text"`
	K    string   `json:"k"`
	Kids []*Tree  `json:"kids"`
}

// Acc is the accessor part of the projection.
type Acc struct {
	Hints     [][]string   `json:"hints"`
	Details   [][]string   `json:"details"`
	FHints    []string     `json:"fhints"`
	FDetails  []string     `json:"fdetails"`
	Links     [][][]string `json:"links"`
	Keys      [][]string   `json:"keys"`
	Tags      [][][]string `json:"tags"`
	Domain    []string     `json:"domain"`
	HasAssert bool         `json:"hasAssert"`
	IsAssert  bool         `json:"isAssert"`
	HasLink   bool         `json:"hasLink"`
	IsLink    bool         `json:"isLink"`
	HasUnimpl bool         `json:"hasUnimpl"`
	IsUnimpl  bool         `json:"isUnimpl"`
	HTTP      []string     `json:"http"`
	Grpc      []string     `json:"grpc"`
}

func safeError(e error) (s string, ok bool) {
	defer func() {
		if r := recover(); r != nil {
			s, ok = fmt.Sprintf("PANIC:%v", r), false
		}
	}()
	return e.Error(), true
}

// Kids returns the visible causes and the node kind.
func Kids(e error) (string, []error) {
	if c := errors.UnwrapOnce(e); c != nil {
		return "w", []error{c}
	}
	if me, ok := e.(interface{ Unwrap() []error }); ok {
		return "m", me.Unwrap()
	}
	return "l", nil
}

// Hidden returns the hidden sub-trees of a node (barrier payload, secondary
// error), read from the value's unexported fields.
func Hidden(e error) []error {
	var out []error
	v := reflect.ValueOf(e)
	if v.Kind() != reflect.Ptr || v.IsNil() || v.Elem().Kind() != reflect.Struct {
		return nil
	}
	ty := cat.TyOf(e)
	var field string
	switch ty {
	case "barrierErr":
		field = "maskedErr"
	case "withSecondaryError":
		field = "secondaryError"
	default:
		return nil
	}
	f := v.Elem().FieldByName(field)
	if !f.IsValid() {
		panic("harness: field " + field + " not found in " + ty)
	}
	x := reflect.NewAt(f.Type(), unsafe.Pointer(f.UnsafeAddr())).Elem().Interface()
	if he, ok := x.(error); ok && he != nil {
		out = append(out, he)
	}
	return out
}

// TreeOf computes the visible tree.
func TreeOf(e error) *Tree {
	if e == nil {
		return nil
	}
	txt, _ := safeError(e)
	k, kids := Kids(e)
	mark := errbase.GetTypeMark(e)
	t := &Tree{
		Ty:   cat.TyOf(e),
		Fam:  cat.FamOf(mark.FamilyName),
		Ext:  tok.Lex(mark.Extension),
		Text: tok.Lex(txt),
		K:    k,
		Kids: []*Tree{},
	}
	for _, c := range kids {
		t.Kids = append(t.Kids, TreeOf(c))
	}
	return t
}

// AllNodes lists node, visible kids, hidden sub-trees (spec: AllNodes).
func AllNodes(e error) []error {
	if e == nil {
		return nil
	}
	out := []error{e}
	_, kids := Kids(e)
	for _, c := range kids {
		out = append(out, AllNodes(c)...)
	}
	for _, h := range Hidden(e) {
		out = append(out, AllNodes(h)...)
	}
	return out
}

// VisNodes lists the visible nodes, pre-order (spec: VisNodes).
func VisNodes(e error) []error {
	if e == nil {
		return nil
	}
	out := []error{e}
	_, kids := Kids(e)
	for _, c := range kids {
		out = append(out, VisNodes(c)...)
	}
	return out
}

func lexAll(ss []string) [][]string {
	out := [][]string{}
	for _, s := range ss {
		out = append(out, tok.Lex(s))
	}
	return out
}

// AccOf computes the accessor observation.
func AccOf(e error) *Acc {
	a := &Acc{}
	a.Hints = lexAll(errors.GetAllHints(e))
	a.Details = lexAll(errors.GetAllDetails(e))
	a.FHints = tok.Lex(errors.FlattenHints(e))
	a.FDetails = tok.Lex(errors.FlattenDetails(e))
	a.Links = [][][]string{}
	for _, l := range errors.GetAllIssueLinks(e) {
		a.Links = append(a.Links, [][]string{tok.Lex(l.IssueURL), tok.Lex(l.Detail)})
	}
	keys := errors.GetTelemetryKeys(e)
	sort.Strings(keys)
	a.Keys = lexAll(keys)
	sort.Slice(a.Keys, func(i, j int) bool { return strings.Join(a.Keys[i], ",") < strings.Join(a.Keys[j], ",") })
	a.Tags = [][][]string{}
	for _, b := range errors.GetContextTags(e) {
		layer := [][]string{}
		for _, t := range b.Get() {
			layer = append(layer, tok.Lex(t.Key()), tok.Lex(t.ValueStr()))
		}
		a.Tags = append(a.Tags, layer)
	}
	a.Domain = tok.Lex(string(errors.GetDomain(e)))
	a.HasAssert = errors.HasAssertionFailure(e)
	a.IsAssert = errors.IsAssertionFailure(e)
	a.HasLink = errors.HasIssueLink(e)
	a.IsLink = errors.IsIssueLink(e)
	a.HasUnimpl = errors.HasUnimplementedError(e)
	a.IsUnimpl = errors.IsUnimplementedError(e)
	a.HTTP = []string{}
	if c := exthttp.GetHTTPCode(e, -1); c != -1 {
		a.HTTP = []string{fmt.Sprintf("n%d", c)}
	}
	a.Grpc = []string{}
	if c := extgrpc.GetGrpcCode(e); c != codes.Unknown {
		a.Grpc = []string{fmt.Sprintf("n%d", int(c))}
	}
	return a
}

// SafeLayer is one layer of GetAllSafeDetails.
type SafeLayer struct {
	TN string     `json:"tn"` // original type name, as catalogue name
	D  []string   `json:"d"`  // hash of every detail string
	W  [][]string `json:"w"`  // words of every detail string
}

func hash(s string) string {
	h := sha256.Sum256([]byte(s))
	return hex.EncodeToString(h[:6])
}

// SafeOf abstracts GetAllSafeDetails.
func SafeOf(e error) []SafeLayer {
	out := []SafeLayer{}
	for _, p := range errors.GetAllSafeDetails(e) {
		l := SafeLayer{TN: cat.FamOf(p.OriginalTypeName), D: []string{}, W: [][]string{}}
		for _, d := range p.SafeDetails {
			l.D = append(l.D, hash(d))
			l.W = append(l.W, tok.Words(d))
		}
		out = append(out, l)
	}
	return out
}

// Verbose renders %+v, plain and redactable.
func Verbose(e error) (plain, redactable string) {
	return fmt.Sprintf("%+v", e), string(redact.Sprintf("%+v", e))
}

// IsOne evaluates errors.Is, recovering a panic as "P".
func IsOne(e, r error) (res string) {
	defer func() {
		if x := recover(); x != nil {
			res = "P"
		}
	}()
	if errors.Is(e, r) {
		return "T"
	}
	return "F"
}

// IsVec evaluates Is(e, r) for every reference of the pool.
func IsVec(e error, pool []error) []string {
	out := make([]string, len(pool))
	for i, r := range pool {
		out[i] = IsOne(e, r)
	}
	return out
}

// IsVec2 is IsVec with the arguments in the other role: Is(e, r) for each r.
func IsVec2(e error, refs []error) []string { return IsVec(e, refs) }

// IsX records the boundary cases of Is / IsAny.
type IsX struct {
	Any    string `json:"any"`    // IsAny(e, pool...)
	None   string `json:"none"`   // IsAny(e)
	NilL   string `json:"nilL"`   // Is(nil, e)
	NilR   string `json:"nilR"`   // Is(e, nil)
	NilNil string `json:"nilnil"` // Is(nil, nil)
	AnyNil string `json:"anyNil"` // IsAny(e, nil)
}

func b2s(f func() bool) (res string) {
	defer func() {
		if x := recover(); x != nil {
			res = "P"
		}
	}()
	if f() {
		return "T"
	}
	return "F"
}

// IsXOf evaluates them.
func IsXOf(e error, pool []error) *IsX {
	return &IsX{
		Any:    b2s(func() bool { return errors.IsAny(e, pool...) }),
		None:   b2s(func() bool { return errors.IsAny(e) }),
		NilL:   b2s(func() bool { return errors.Is(nil, e) }),
		NilR:   b2s(func() bool { return errors.Is(e, nil) }),
		NilNil: b2s(func() bool { return errors.Is(nil, nil) }),
		AnyNil: b2s(func() bool { return errors.IsAny(e, nil) }),
	}
}

// Rend abstracts one redactable rendering.
type Rend struct {
	Out  []string `json:"out"`  // words outside redaction markers
	In   []string `json:"in"`   // words inside redaction markers
	M    []int    `json:"m"`    // marker stream: 1 = open, 2 = close, 3 = newline
	Cong bool     `json:"cong"` // markers stripped == plain rendering via Formattable
	Bang bool     `json:"bang"` // markers stripped starts with "%!" (verb refused)
}

// Outs are the outputs the library declares PII-free, abstracted to the words
// they contain, plus the redactable renderings.
type Outs struct {
	RV       *Rend    `json:"rv"`
	RPV      *Rend    `json:"rpv"`
	RS       *Rend    `json:"rs"`
	RQ       *Rend    `json:"rq"`
	RX       *Rend    `json:"rx"`
	Redacted []string `json:"redacted"` // words in the Redact()ed %+v rendering
	Safe     []string `json:"safe"`     // words in GetAllSafeDetails
	WireRP   []string `json:"wirerp"`   // words in the reportable payloads on the wire
	Report   []string `json:"report"`   // words in the Sentry event and extras
}

func sortedSet(m map[string]bool) []string {
	out := []string{}
	for k := range m {
		out = append(out, k)
	}
	sort.Strings(out)
	return out
}

func rendOf(e error, verb string) *Rend {
	r := redact.Sprintf(verb, e)
	s := string(r)
	out, in := map[string]bool{}, map[string]bool{}
	m := []int{}
	depth := 0
	for i := 0; i < len(s); {
		switch {
		case strings.HasPrefix(s[i:], "‹"):
			m = append(m, 1)
			depth++
			i += len("‹")
		case strings.HasPrefix(s[i:], "›"):
			m = append(m, 2)
			depth--
			i += len("›")
		case s[i] == '\n':
			m = append(m, 3)
			i++
		case s[i] == 'Z':
			if w, n := tok.WordAt(s[i:]); n > 0 {
				if depth > 0 {
					in[w] = true
				} else {
					out[w] = true
				}
				i += n
			} else {
				i++
			}
		default:
			i++
		}
	}
	stripped := r.StripMarkers()
	plain := fmt.Sprintf(verb, errors.Formattable(e))
	return &Rend{Out: sortedSet(out), In: sortedSet(in), M: m, Cong: stripped == plain,
		Bang: strings.HasPrefix(stripped, "%!")}
}

func min(a, b int) int {
	if a < b {
		return a
	}
	return b
}

func wordSet(ss ...string) []string {
	m := map[string]bool{}
	for _, s := range ss {
		for _, w := range tok.Words(s) {
			m[w] = true
		}
	}
	return sortedSet(m)
}

func wireRP(enc *errorspb.EncodedError, acc *[]string) {
	var det *errorspb.EncodedErrorDetails
	if w := enc.GetWrapper(); w != nil {
		det = &w.Details
		wireRP(&w.Cause, acc)
	} else if l := enc.GetLeaf(); l != nil {
		det = &l.Details
		for _, c := range l.MultierrorCauses {
			wireRP(c, acc)
		}
	}
	if det == nil {
		return
	}
	*acc = append(*acc, det.ReportablePayload...)
	*acc = append(*acc, det.OriginalTypeName, det.ErrorTypeMark.FamilyName, det.ErrorTypeMark.Extension)
	if det.FullDetails != nil {
		var da types.DynamicAny
		if err := types.UnmarshalAny(det.FullDetails, &da); err == nil {
			if inner, ok := da.Message.(*errorspb.EncodedError); ok {
				wireRP(inner, acc)
			}
		}
	}
}

// OutsOf computes the PII-free outputs.
func OutsOf(e error) *Outs {
	o := &Outs{
		RV: rendOf(e, "%v"), RPV: rendOf(e, "%+v"), RS: rendOf(e, "%s"),
		RQ: rendOf(e, "%q"), RX: rendOf(e, "%x"),
	}
	o.Redacted = wordSet(string(redact.Sprintf("%+v", e).Redact()), string(redact.Sprintf("%v", e).Redact()),
		errors.Redact(e))
	var sd []string
	for _, p := range errors.GetAllSafeDetails(e) {
		sd = append(sd, p.SafeDetails...)
	}
	o.Safe = wordSet(sd...)
	enc := errors.EncodeError(context.Background(), e)
	var rp []string
	wireRP(&enc, &rp)
	o.WireRP = wordSet(rp...)
	ev, extras := errors.BuildSentryReport(e)
	b1, _ := json.Marshal(ev)
	b2, _ := json.Marshal(extras)
	o.Report = wordSet(string(b1), string(b2))
	return o
}
