// Package proj computes the projection Obs(v) of a real error value: the
// abstract observation the specification predicts (DESIGN 3.4). It has no
// oracle and makes no judgement.
package proj

import (
	"context"
	"crypto/sha256"
	"encoding/hex"
	"encoding/json"
	goerrors "errors"
	"fmt"
	"os"
	"path/filepath"
	"reflect"
	"regexp"
	"runtime"
	"sort"
	"strings"
	"syscall"
	"time"
	"unsafe"

	"github.com/cockroachdb/errors"
	"github.com/cockroachdb/errors/errbase"
	"github.com/cockroachdb/errors/errorspb"
	"github.com/cockroachdb/errors/extgrpc"
	"github.com/cockroachdb/errors/exthttp"
	"github.com/cockroachdb/errors/oserror"
	"github.com/cockroachdb/redact"
	"github.com/getsentry/sentry-go"
	"github.com/gogo/protobuf/types"
	pkgerrors "github.com/pkg/errors"
	"google.golang.org/grpc/codes"

	"verifharness/internal/cat"
	"verifharness/internal/tok"
	"verifharness/internal/utypes"
)

// Tree is the visible cause tree.
type Tree struct {
	Ty   string   `json:"ty"`
	Fam  string   `json:"fam"`
	Ext  []string `json:"ext"`
	Text []string `json:"text"`
	K    string   `json:"k"`
	Kids []*Tree  `json:"kids"`
	// hidden sub-trees (barrier payload, secondary error), as far as this process can see them
	Hid []*Tree `json:"hid"`
}

// Acc is the accessor part of the projection.
type Acc struct {
	Hints     [][]string   `json:"hints"`
	Details   [][]string   `json:"details"`
	FHints    []string     `json:"fhints"`
	FDetails  []string     `json:"fdetails"`
	Links     [][][]string `json:"links"`
	Keys      [][]string   `json:"keys"`
	Tags      [][][]string `json:"tags"`
	Domain    []string     `json:"domain"`
	HasAssert bool         `json:"hasAssert"`
	IsAssert  bool         `json:"isAssert"`
	HasLink   bool         `json:"hasLink"`
	IsLink    bool         `json:"isLink"`
	HasUnimpl bool         `json:"hasUnimpl"`
	IsUnimpl  bool         `json:"isUnimpl"`
	HTTP      []string     `json:"http"`
	Grpc      []string     `json:"grpc"`
	// types found by HasType along the cause chain (catalogue names, sorted)
	HasType []string `json:"hastype"`
	// NotInDomain against NoDomain, NamedDomain(w1), NamedDomain(w2)
	NotIn []bool `json:"notin"`
	// HasInterface(e, (*interface{ ErrorHint() string })(nil))
	HasHinter bool `json:"hasHinter"`
	// If(e, pred) with pred answering the detail of a layer that has ErrorDetail(): zero or one string
	IfDetail [][]string `json:"ifDetail"`
	// relational observations (compared before / after hops only)
	OS     []bool   `json:"os"`     // oserror.IsPermission / IsExist / IsNotExist / IsTimeout
	Frames []string `json:"frames"` // per layer with a reportable stack: hash of its frames' function names and lines
	Source string   `json:"source"` // one-line source "file:line:fn" ("" if none)
	// per layer of the single-cause chain, outermost first: "file:line:fn" of the
	// innermost frame of its own reportable stack ("" if it has none)
	ChainTops []string `json:"chainTops"`
}

func safeError(e error) (s string, ok bool) {
	defer func() {
		if r := recover(); r != nil {
			s, ok = fmt.Sprintf("PANIC:%v", r), false
		}
	}()
	return e.Error(), true
}

// Kids returns the visible causes and the node kind.
func Kids(e error) (string, []error) {
	// (a node that has both Unwrap() []error and Cause() is listed with all its branches)
	if me, ok := e.(interface{ Unwrap() []error }); ok {
		if _, hybrid := e.(interface{ Cause() error }); hybrid {
			return "m", me.Unwrap()
		}
	}
	if c := errors.UnwrapOnce(e); c != nil {
		return "w", []error{c}
	}
	if me, ok := e.(interface{ Unwrap() []error }); ok {
		return "m", me.Unwrap()
	}
	return "l", nil
}

// Hidden returns the hidden sub-trees of a node (barrier payload, secondary
// error), read from the value's unexported fields.
func Hidden(e error) []error {
	var out []error
	v := reflect.ValueOf(e)
	if v.Kind() != reflect.Ptr || v.IsNil() || v.Elem().Kind() != reflect.Struct {
		return nil
	}
	ty := cat.TyOf(e)
	var field string
	switch ty {
	case "barrierErr":
		field = "maskedErr"
	case "withSecondaryError":
		field = "secondaryError"
	default:
		return nil
	}
	f := v.Elem().FieldByName(field)
	if !f.IsValid() {
		return nil
	}
	x := reflect.NewAt(f.Type(), unsafe.Pointer(f.UnsafeAddr())).Elem().Interface()
	if he, ok := x.(error); ok && he != nil {
		out = append(out, he)
	}
	return out
}

// TreeOf computes the visible tree.
func TreeOf(e error) *Tree {
	if e == nil {
		return nil
	}
	txt, _ := safeError(e)
	k, kids := Kids(e)
	mark := errbase.GetTypeMark(e)
	t := &Tree{
		Ty:   cat.TyOf(e),
		Fam:  cat.FamOf(mark.FamilyName),
		Ext:  tok.Lex(mark.Extension),
		Text: tok.Lex(txt),
		K:    k,
		Kids: []*Tree{},
		Hid:  []*Tree{},
	}
	for _, c := range kids {
		t.Kids = append(t.Kids, TreeOf(c))
	}
	for _, h := range Hidden(e) {
		t.Hid = append(t.Hid, TreeOf(h))
	}
	return t
}

// AllNodes lists node, visible kids, hidden sub-trees (spec: AllNodes).
func AllNodes(e error) []error {
	if e == nil {
		return nil
	}
	out := []error{e}
	_, kids := Kids(e)
	for _, c := range kids {
		out = append(out, AllNodes(c)...)
	}
	for _, h := range Hidden(e) {
		out = append(out, AllNodes(h)...)
	}
	return out
}

// VisNodes lists the visible nodes, pre-order (spec: VisNodes).
func VisNodes(e error) []error {
	if e == nil {
		return nil
	}
	out := []error{e}
	_, kids := Kids(e)
	for _, c := range kids {
		out = append(out, VisNodes(c)...)
	}
	return out
}

func lexAll(ss []string) [][]string {
	out := [][]string{}
	for _, s := range ss {
		out = append(out, tok.Lex(s))
	}
	return out
}

// AccOf computes the accessor observation.
func AccOf(e error) *Acc {
	a := &Acc{}
	a.Hints = lexAll(errors.GetAllHints(e))
	a.Details = lexAll(errors.GetAllDetails(e))
	a.FHints = tok.Lex(errors.FlattenHints(e))
	a.FDetails = tok.Lex(errors.FlattenDetails(e))
	a.Links = [][][]string{}
	for _, l := range errors.GetAllIssueLinks(e) {
		a.Links = append(a.Links, [][]string{tok.Lex(l.IssueURL), tok.Lex(l.Detail)})
	}
	keys := errors.GetTelemetryKeys(e)
	sort.Strings(keys)
	a.Keys = lexAll(keys)
	sort.Slice(a.Keys, func(i, j int) bool { return strings.Join(a.Keys[i], ",") < strings.Join(a.Keys[j], ",") })
	a.Tags = [][][]string{}
	for _, b := range errors.GetContextTags(e) {
		layer := [][]string{}
		for _, t := range b.Get() {
			layer = append(layer, tok.Lex(t.Key()), tok.Lex(t.ValueStr()))
		}
		// (a layer whose buffer is empty has neither keys nor values to show)
		if len(layer) > 0 {
			a.Tags = append(a.Tags, layer)
		}
	}
	a.Domain = tok.Lex(string(errors.GetDomain(e)))
	a.HasAssert = errors.HasAssertionFailure(e)
	a.IsAssert = errors.IsAssertionFailure(e)
	a.HasLink = errors.HasIssueLink(e)
	a.IsLink = errors.IsIssueLink(e)
	a.HasUnimpl = errors.HasUnimplementedError(e)
	a.IsUnimpl = errors.IsUnimplementedError(e)
	a.HTTP = []string{}
	if c := exthttp.GetHTTPCode(e, -1); c != -1 {
		a.HTTP = []string{fmt.Sprintf("n%d", c)}
	}
	a.Grpc = []string{}
	if c := extgrpc.GetGrpcCode(e); c != codes.Unknown {
		a.Grpc = []string{fmt.Sprintf("n%d", int(c))}
	}
	a.HasType = []string{}
	for ty, sample := range cat.Samples {
		if errors.HasType(e, sample) {
			a.HasType = append(a.HasType, ty)
		}
	}
	sort.Strings(a.HasType)
	a.NotIn = []bool{errors.NotInDomain(e, errors.NoDomain),
		errors.NotInDomain(e, errors.NamedDomain(tok.Str([]string{"w1"}))),
		errors.NotInDomain(e, errors.NamedDomain(tok.Str([]string{"w2"})))}
	a.HasHinter = errors.HasInterface(e, (*interface{ ErrorHint() string })(nil))
	a.IfDetail = [][]string{}
	if d, ok := errors.If(e, func(err error) (interface{}, bool) {
		if w, ok := err.(interface{ ErrorDetail() string }); ok {
			return w.ErrorDetail(), true
		}
		return nil, false
	}); ok {
		a.IfDetail = append(a.IfDetail, tok.Lex(d.(string)))
	}
	a.OS = []bool{oserror.IsPermission(e), oserror.IsExist(e), oserror.IsNotExist(e), oserror.IsTimeout(e)}
	a.Frames = []string{}
	for _, n := range VisNodes(e) {
		if st := errors.GetReportableStackTrace(n); st != nil {
			var b strings.Builder
			for _, f := range st.Frames {
				fmt.Fprintf(&b, "%s.%s:%d;", f.Module, f.Function, f.Lineno)
			}
			a.Frames = append(a.Frames, hash(b.String()))
		}
	}
	if file, line, fn, ok := errors.GetOneLineSource(e); ok {
		a.Source = fmt.Sprintf("%s:%d:%s", file, line, fn)
	}
	a.ChainTops = []string{}
	for c := e; c != nil; c = errors.UnwrapOnce(c) {
		top := ""
		if st := errors.GetReportableStackTrace(c); st != nil && len(st.Frames) > 0 {
			f := st.Frames[len(st.Frames)-1]
			top = fmt.Sprintf("%s:%d:%s", filepath.Base(f.Filename), f.Lineno, f.Function)
		}
		a.ChainTops = append(a.ChainTops, top)
	}
	return a
}

// SafeLayer is one layer of GetAllSafeDetails.
type SafeLayer struct {
	TN string     `json:"tn"` // original type name, as catalogue name
	D  []string   `json:"d"`  // hash of every detail string
	W  [][]string `json:"w"`  // words of every detail string
}

func hash(s string) string {
	h := sha256.Sum256([]byte(s))
	return hex.EncodeToString(h[:6])
}

// SafeOf abstracts GetAllSafeDetails.
func SafeOf(e error) []SafeLayer {
	out := []SafeLayer{}
	for _, p := range errors.GetAllSafeDetails(e) {
		l := SafeLayer{TN: cat.FamOf(p.OriginalTypeName), D: []string{}, W: [][]string{}}
		for _, d := range p.SafeDetails {
			l.D = append(l.D, hash(d))
			l.W = append(l.W, tok.Words(d))
		}
		out = append(out, l)
	}
	return out
}

// Verbose renders %+v, plain and redactable.
func Verbose(e error) (plain, redactable string) {
	return fmt.Sprintf("%+v", e), string(redact.Sprintf("%+v", e))
}

// IsOne evaluates errors.Is, recovering a panic as "P".
func IsOne(e, r error) (res string) {
	defer func() {
		if x := recover(); x != nil {
			res = "P"
		}
	}()
	if errors.Is(e, r) {
		return "T"
	}
	return "F"
}

// IsVec evaluates Is(e, r) for every reference of the pool.
func IsVec(e error, pool []error) []string {
	out := make([]string, len(pool))
	for i, r := range pool {
		out[i] = IsOne(e, r)
	}
	return out
}

// IsVec2 is IsVec with the arguments in the other role: Is(e, r) for each r.
func IsVec2(e error, refs []error) []string { return IsVec(e, refs) }

// IsX records the boundary cases of Is / IsAny.
type IsX struct {
	Any    string `json:"any"`    // IsAny(e, pool...)
	None   string `json:"none"`   // IsAny(e)
	NilL   string `json:"nilL"`   // Is(nil, e)
	NilR   string `json:"nilR"`   // Is(e, nil)
	NilNil string `json:"nilnil"` // Is(nil, nil)
	AnyNil string `json:"anyNil"` // IsAny(e, nil)
	// IsAny against the references held by the OTHER slots only, in pool
	// order and in reverse order
	AnyOther    string `json:"anyOther"`
	AnyOtherRev string `json:"anyOtherRev"`
}

// B2S evaluates a predicate: "T", "F" or "P" (panic).
func B2S(f func() bool) string { return b2s(f) }

func b2s(f func() bool) (res string) {
	defer func() {
		if x := recover(); x != nil {
			res = "P"
		}
	}()
	if f() {
		return "T"
	}
	return "F"
}

// IsXOf evaluates them.
func IsXOf(e error, pool []error, others []error) *IsX {
	rev := make([]error, len(others))
	for i, r := range others {
		rev[len(others)-1-i] = r
	}
	return &IsX{
		AnyOther:    b2s(func() bool { return errors.IsAny(e, others...) }),
		AnyOtherRev: b2s(func() bool { return errors.IsAny(e, rev...) }),
		Any:         b2s(func() bool { return errors.IsAny(e, pool...) }),
		None:        b2s(func() bool { return errors.IsAny(e) }),
		NilL:        b2s(func() bool { return errors.Is(nil, e) }),
		NilR:        b2s(func() bool { return errors.Is(e, nil) }),
		NilNil:      b2s(func() bool { return errors.Is(nil, nil) }),
		AnyNil:      b2s(func() bool { return errors.IsAny(e, nil) }),
	}
}

// Rend abstracts one redactable rendering.
type Rend struct {
	Out  []string `json:"out"`  // words outside redaction markers
	In   []string `json:"in"`   // words inside redaction markers
	M    []int    `json:"m"`    // marker stream: 1 = open, 2 = close, 3 = newline
	Cong bool     `json:"cong"` // markers stripped == plain rendering via Formattable
	Bang bool     `json:"bang"` // markers stripped starts with "%!" (verb refused)
}

// Outs are the outputs the library declares PII-free, abstracted to the words
// they contain, plus the redactable renderings.
type Outs struct {
	RV       *Rend    `json:"rv"`
	RPV      *Rend    `json:"rpv"`
	RS       *Rend    `json:"rs"`
	RQ       *Rend    `json:"rq"`
	RX       *Rend    `json:"rx"`
	Redacted []string `json:"redacted"` // words in the Redact()ed %+v rendering
	Safe     []string `json:"safe"`     // words in GetAllSafeDetails
	WireRP   []string `json:"wirerp"`   // words in the reportable payloads on the wire
	Report   []string `json:"report"`   // words in the Sentry event and extras
}

func sortedSet(m map[string]bool) []string {
	out := []string{}
	for k := range m {
		out = append(out, k)
	}
	sort.Strings(out)
	return out
}

func rendOf(e error, verb string) *Rend {
	r := redact.Sprintf(verb, e)
	s := string(r)
	out, in := map[string]bool{}, map[string]bool{}
	m := []int{}
	depth := 0
	for i := 0; i < len(s); {
		switch {
		case strings.HasPrefix(s[i:], "‹"):
			m = append(m, 1)
			depth++
			i += len("‹")
		case strings.HasPrefix(s[i:], "›"):
			m = append(m, 2)
			depth--
			i += len("›")
		case s[i] == '\n':
			m = append(m, 3)
			i++
		case s[i] == 'Z':
			if w, n := tok.WordAt(s[i:]); n > 0 {
				if depth > 0 {
					in[w] = true
				} else {
					out[w] = true
				}
				i += n
			} else {
				i++
			}
		default:
			i++
		}
	}
	stripped := r.StripMarkers()
	plain := fmt.Sprintf(verb, errors.Formattable(e))
	return &Rend{Out: sortedSet(out), In: sortedSet(in), M: m, Cong: stripped == plain,
		Bang: strings.HasPrefix(stripped, "%!")}
}

func min(a, b int) int {
	if a < b {
		return a
	}
	return b
}

func wordSet(ss ...string) []string {
	m := map[string]bool{}
	for _, s := range ss {
		for _, w := range tok.Words(s) {
			m[w] = true
		}
	}
	return sortedSet(m)
}

func wireRP(enc *errorspb.EncodedError, acc *[]string) {
	var det *errorspb.EncodedErrorDetails
	if w := enc.GetWrapper(); w != nil {
		det = &w.Details
		wireRP(&w.Cause, acc)
	} else if l := enc.GetLeaf(); l != nil {
		det = &l.Details
		for _, c := range l.MultierrorCauses {
			wireRP(c, acc)
		}
	}
	if det == nil {
		return
	}
	*acc = append(*acc, det.ReportablePayload...)
	*acc = append(*acc, det.OriginalTypeName, det.ErrorTypeMark.FamilyName, det.ErrorTypeMark.Extension)
	if det.FullDetails != nil {
		var da types.DynamicAny
		if err := types.UnmarshalAny(det.FullDetails, &da); err == nil {
			if inner, ok := da.Message.(*errorspb.EncodedError); ok {
				wireRP(inner, acc)
			}
		}
	}
}

// OutsOf computes the PII-free outputs.
func OutsOf(e error) *Outs {
	o := &Outs{
		RV: rendOf(e, "%v"), RPV: rendOf(e, "%+v"), RS: rendOf(e, "%s"),
		RQ: rendOf(e, "%q"), RX: rendOf(e, "%x"),
	}
	o.Redacted = wordSet(string(redact.Sprintf("%+v", e).Redact()), string(redact.Sprintf("%v", e).Redact()),
		errors.Redact(e))
	var sd []string
	for _, p := range errors.GetAllSafeDetails(e) {
		sd = append(sd, p.SafeDetails...)
	}
	o.Safe = wordSet(sd...)
	enc := errors.EncodeError(context.Background(), e)
	var rp []string
	wireRP(&enc, &rp)
	o.WireRP = wordSet(rp...)
	ev, extras := errors.BuildSentryReport(e)
	b1, _ := json.Marshal(ev)
	b2, _ := json.Marshal(extras)
	// ... and what ReportError actually hands to the transport
	sev, _, _ := Sent(e)
	b3, _ := json.Marshal(sev)
	o.Report = wordSet(string(b1), string(b2), string(b3))
	return o
}

// PVerbose abstracts one %+v rendering.
type PVerbose struct {
	Starts bool       `json:"starts"` // begins with the Error() text
	NEnt   int        `json:"nent"`   // numbered entries
	Depths []int      `json:"depths"` // indentation level of each entry
	Types  []string   `json:"types"`  // the "Error types" line, as catalogue names
	Words  [][]string `json:"words"`  // words of each entry
	Lits   [][]string `json:"lits"`   // detail literals of the library found in each entry
	Toks   [][]string `json:"toks"`   // tokens of the beginning (300 bytes) of each entry
}

// Fmt abstracts the formatting behaviour of a value (C09).
type Fmt struct {
	BadDirect      []string `json:"badDirect"`      // specs where fmt(spec, e) != fmt(spec, e.Error())
	BadFormattable []string `json:"badFormattable"` // same through errors.Formattable
	// the same for the specs that carry the '+' flag on s / q / x / X
	BadDirectPlus      []string  `json:"badDirectPlus"`
	BadFormattablePlus []string  `json:"badFormattablePlus"`
	BadVerb            []string  `json:"badVerb"` // other verbs: not fmt's %!verb(type) notation
	BadVerbF           []string  `json:"badVerbF"`
	GoSyntax           bool      `json:"goSyntax"`  // through Formattable: %#v gives a non-empty dump, also with the + flag
	GoSyntaxD          bool      `json:"goSyntaxD"` // same, direct
	PV                 *PVerbose `json:"pv"`        // %+v, direct
	PVF                *PVerbose `json:"pvf"`       // %+v, through Formattable
}

var entryRe = regexp.MustCompile(`^((?:  )*)(└─ )?Wraps: \((\d+)\)`)

func parseVerbose(out, text string) *PVerbose {
	p := &PVerbose{Depths: []int{}, Types: []string{}, Words: [][]string{}, Lits: [][]string{}, Toks: [][]string{}}
	p.Starts = strings.HasPrefix(out, text)
	body := out
	if i := strings.LastIndex(out, "\nError types:"); i >= 0 {
		body = out[:i]
		for _, f := range strings.Split(out[i+len("\nError types:"):], " (") {
			f = strings.TrimSpace(f)
			if j := strings.Index(f, ") "); j >= 0 {
				t := strings.TrimSpace(f[j+2:])
				if ty, ok := cat.GoType2Ty[t]; ok {
					p.Types = append(p.Types, ty)
				} else {
					p.Types = append(p.Types, "T:"+t)
				}
			}
		}
	}
	lines := strings.Split(body, "\n")
	cur := -1
	var bufs []string
	for _, ln := range lines {
		if cur < 0 {
			if strings.HasPrefix(ln, "(1)") {
				cur = 0
				p.Depths = append(p.Depths, 0)
				bufs = append(bufs, ln[3:])
			}
			continue
		}
		if m := entryRe.FindStringSubmatch(ln); m != nil {
			d := len(m[1]) / 2
			if m[2] != "" {
				d++
			}
			p.Depths = append(p.Depths, d)
			bufs = append(bufs, ln[len(m[0]):])
			cur++
			continue
		}
		bufs[cur] += "\n" + ln
	}
	p.NEnt = len(bufs)
	for _, b := range bufs {
		p.Words = append(p.Words, tok.Words(b))
		head := b
		if len(head) > 300 {
			head = head[:300]
		}
		p.Toks = append(p.Toks, tok.Lex(head))
		lits := []string{}
		for name, txt := range cat.DetailLits {
			if strings.Contains(b, txt) {
				lits = append(lits, name)
			}
		}
		sort.Strings(lits)
		p.Lits = append(p.Lits, lits)
	}
	return p
}

// FmtSpecs is the table of verb specifications compared with fmt's rendering
// of the Error() string.
func FmtSpecs() []string {
	var out []string
	for _, verb := range []string{"v", "s", "q", "x", "X"} {
		// (the flags C09 names: '-', '#', ' ', '0'; '+' selects the verbose form)
		for _, flags := range []string{"", "-", "#", " ", "0", "-#", "# ", "-0", "#0", "+", "+-", "+#", "+0"} {
			if verb == "v" && (strings.Contains(flags, "#") || strings.Contains(flags, "+")) {
				continue // %#v is the Go-syntax form, %+v the verbose form
			}
			for _, w := range []string{"", "3", "40"} {
				for _, pr := range []string{"", ".2", ".50"} {
					if w == "3" && pr != "" {
						continue
					}
					out = append(out, "%"+flags+w+pr+verb)
				}
			}
		}
	}
	return out
}

func sprintf(spec string, a interface{}) (s string) {
	defer func() {
		if r := recover(); r != nil {
			s = fmt.Sprintf("PANIC:%v", r)
		}
	}()
	return fmt.Sprintf(spec, a)
}

// FmtOf computes the formatting observation.
func FmtOf(e error) *Fmt {
	f := &Fmt{BadDirect: []string{}, BadFormattable: []string{}, BadDirectPlus: []string{}, BadFormattablePlus: []string{},
		BadVerb: []string{}, BadVerbF: []string{}}
	text, _ := safeError(e)
	for _, spec := range FmtSpecs() {
		want := sprintf(spec, text)
		plus := strings.Contains(spec, "+")
		if got := sprintf(spec, e); got != want {
			if plus {
				f.BadDirectPlus = append(f.BadDirectPlus, spec)
			} else {
				f.BadDirect = append(f.BadDirect, spec)
			}
		}
		if got := sprintf(spec, errors.Formattable(e)); got != want {
			if plus {
				f.BadFormattablePlus = append(f.BadFormattablePlus, spec)
			} else {
				f.BadFormattable = append(f.BadFormattable, spec)
			}
		}
	}
	for _, verb := range []string{"d", "t", "f", "c", "5d", "-3t"} {
		want := "%!" + verb[len(verb)-1:] + "(" + reflect.TypeOf(e).String() + ")"
		if got := sprintf("%"+verb, e); got != want {
			f.BadVerb = append(f.BadVerb, verb)
		}
		if got := sprintf("%"+verb, errors.Formattable(e)); got != want {
			f.BadVerbF = append(f.BadVerbF, verb)
		}
	}
	gs := sprintf("%#v", errors.Formattable(e))
	f.GoSyntax = gs != "" && !strings.HasPrefix(gs, "%!") && !strings.HasPrefix(gs, "PANIC:")
	// '#' selects the Go-syntax dump whatever the other flags ('+' included)
	for _, spec := range []string{"%+#v", "%#+v", "% +#v"} {
		if sprintf(spec, errors.Formattable(e)) != gs {
			f.GoSyntax = false
		}
	}
	gd := sprintf("%#v", e)
	f.GoSyntaxD = gd != "" && !strings.HasPrefix(gd, "%!") && !strings.HasPrefix(gd, "PANIC:")
	for _, spec := range []string{"%+#v", "%#+v"} {
		if sprintf(spec, e) != gd {
			f.GoSyntaxD = false
		}
	}
	f.PV = parseVerbose(sprintf("%+v", e), text)
	f.PVF = parseVerbose(sprintf("%+v", errors.Formattable(e)), text)
	return f
}

// Report abstracts BuildSentryReport (C15).
type Report struct {
	HasSource  bool       `json:"hasSource"`  // GetOneLineSource found a location
	SrcPrefix  bool       `json:"srcPrefix"`  // the message begins with "file:line: " of that location
	HeadOK     bool       `json:"headOK"`     // then comes the redacted verbose rendering
	NComp      int        `json:"ncomp"`      // composition lines
	NExc       int        `json:"nexc"`       // exceptions
	Synthetic  bool       `json:"synthetic"`  // single exception without stack trace
	ExcFrames  bool       `json:"excFrames"`  // k-th exception carries the frames of the k-th stack-carrying layer, outermost first
	ExcOwn     bool       `json:"excOwn"`     // for layers with a live stack: the exception's frames are that layer's own program counters
	ExcModule  bool       `json:"excModule"`  // every exception's module is the error's domain
	NStack     int        `json:"nstack"`     // layers with a reportable stack trace
	Types      [][]string `json:"types"`      // "error types" extra: [type name, family or *, extension] per line
	NilNothing bool       `json:"nilNothing"` // BuildSentryReport(nil) returns nothing
	SentOK     bool       `json:"sentOK"`     // ReportError hands exactly this report (message, exceptions, extras) to the transport, once, with a redacted server name
}

// capT is a Sentry transport that keeps the events instead of sending them.
type capT struct{}

var sent []*sentry.Event

func (capT) Flush(time.Duration) bool       { return true }
func (capT) Configure(sentry.ClientOptions) {}
func (capT) SendEvent(ev *sentry.Event)     { sent = append(sent, ev) }

func init() {
	client, err := sentry.NewClient(sentry.ClientOptions{
		Transport:    capT{},
		Integrations: func([]sentry.Integration) []sentry.Integration { return nil },
	})
	if err != nil {
		panic("harness: sentry client: " + err.Error())
	}
	sentry.CurrentHub().BindClient(client)
}

// Sent runs errors.ReportError and returns the event the transport received.
func Sent(e error) (ev *sentry.Event, id string, n int) {
	sent = sent[:0]
	id = errors.ReportError(e)
	n = len(sent)
	if n > 0 {
		ev = sent[0]
	}
	return ev, id, n
}

func sentOK(e error, ev *sentry.Event, extras map[string]interface{}) bool {
	got, id, n := Sent(e)
	if n != 1 || id == "" || string(got.EventID) != id {
		return false
	}
	if got.Message != ev.Message || got.ServerName != "<redacted>" || got.Tags["report_type"] != "error" {
		return false
	}
	b1, _ := json.Marshal(got.Exception)
	b2, _ := json.Marshal(ev.Exception)
	if string(b1) != string(b2) {
		return false
	}
	for k, v := range extras {
		if !reflect.DeepEqual(got.Extra[k], v) {
			return false
		}
	}
	for k, v := range ev.Extra {
		if !reflect.DeepEqual(got.Extra[k], v) {
			return false
		}
	}
	return true
}

func framesKey(st *errors.ReportableStackTrace) string {
	if st == nil {
		return "<nil>"
	}
	var b strings.Builder
	for _, f := range st.Frames {
		fmt.Fprintf(&b, "%s:%d;", f.Function, f.Lineno)
	}
	return b.String()
}

// ReportOf computes the report observation.
func ReportOf(e error) *Report {
	r := &Report{Types: [][]string{}}
	ev0, ex0 := errors.BuildSentryReport(nil)
	r.NilNothing = ev0 == nil && len(ex0) == 0
	ev, extras := errors.BuildSentryReport(e)
	if ev == nil {
		return r
	}
	r.SentOK = sentOK(e, ev, extras)
	msg := ev.Message
	file, line, _, ok := errors.GetOneLineSource(e)
	r.HasSource = ok
	rest := msg
	if ok {
		pfx := fmt.Sprintf("%s:%d: ", file, line)
		r.SrcPrefix = strings.HasPrefix(msg, pfx)
		rest = strings.TrimPrefix(msg, pfx)
	} else {
		r.SrcPrefix = true
	}
	verbose := redact.Sprintf("%+v", e).Redact().StripMarkers()
	const compHdr = "\n-- report composition:\n"
	r.HeadOK = strings.HasPrefix(rest, verbose+compHdr)
	if i := strings.LastIndex(msg, compHdr); i >= 0 {
		comp := strings.TrimSuffix(msg[i+len(compHdr):], "\n(check the extra data payloads)")
		r.NComp = len(strings.Split(comp, "\n"))
	}
	r.NExc = len(ev.Exception)
	var stacks []*errors.ReportableStackTrace
	var own []string // lines of the layer's own program counters, oldest first ("" = no live stack)
	for _, n := range VisNodes(e) {
		if st := errors.GetReportableStackTrace(n); st != nil {
			stacks = append(stacks, st)
			o := ""
			if sp, ok := n.(errbase.StackTraceProvider); ok {
				pcs := sp.StackTrace()
				var b strings.Builder
				for i := len(pcs) - 1; i >= 0; i-- {
					pc := uintptr(pcs[i]) - 1
					if fn := runtime.FuncForPC(pc); fn != nil {
						_, line := fn.FileLine(pc)
						fmt.Fprintf(&b, "%d;", line)
					}
				}
				o = b.String()
			}
			own = append(own, o)
		}
	}
	r.NStack = len(stacks)
	r.Synthetic = len(ev.Exception) == 1 && ev.Exception[0].Stacktrace == nil
	r.ExcFrames = true
	if len(stacks) > 0 {
		if len(stacks) != len(ev.Exception) {
			r.ExcFrames = false
		} else {
			for k := range stacks {
				if framesKey(stacks[k]) != framesKey(ev.Exception[k].Stacktrace) {
					r.ExcFrames = false
				}
			}
		}
	}
	r.ExcOwn = true
	if len(stacks) == len(ev.Exception) {
		for k := range stacks {
			if own[k] == "" || ev.Exception[k].Stacktrace == nil {
				continue
			}
			var b strings.Builder
			for _, f := range ev.Exception[k].Stacktrace.Frames {
				fmt.Fprintf(&b, "%d;", f.Lineno)
			}
			if b.String() != own[k] {
				r.ExcOwn = false
			}
		}
	}
	r.ExcModule = true
	dom := string(errors.GetDomain(e))
	for _, x := range ev.Exception {
		if x.Module != dom {
			r.ExcModule = false
		}
	}
	if ts, ok := extras["error types"].(string); ok {
		for _, ln := range strings.Split(strings.TrimSuffix(ts, "\n"), "\n") {
			// "<type name> (<family or *>::<extension>)"
			i := strings.LastIndex(ln, " (")
			if i < 0 || !strings.HasSuffix(ln, ")") {
				r.Types = append(r.Types, []string{"?" + ln})
				continue
			}
			tn := ln[:i]
			in := ln[i+2 : len(ln)-1]
			j := strings.Index(in, "::")
			if j < 0 {
				r.Types = append(r.Types, []string{"?" + ln})
				continue
			}
			fm := in[:j]
			if fm != "*" {
				fm = cat.FamOf(fm)
			}
			r.Types = append(r.Types, append([]string{cat.FamOf(tn), fm}, tok.Lex(in[j+2:])...))
		}
	}
	return r
}

// Std is the differential observation against the standard library and
// pkg/errors (C14): the real results of both sides, no judgement.
type Std struct {
	Is        []string `json:"is"`        // std errors.Is(e, r) for every reference of the pool
	UnwrapEq  bool     `json:"unwrapEq"`  // errors.Unwrap(e) (library) is the node std errors.Unwrap(e) returns
	StdUnwNil bool     `json:"stdUnwNil"` // std errors.Unwrap(e) == nil
	LibUnwNil bool     `json:"libUnwNil"` // library Unwrap(e) == nil
	As        [][]int  `json:"as"`        // per target: [std index, lib index, values equal (1/0)]; index in VisNodes, -1 = not found
	PkgRoot   int      `json:"pkgRoot"`   // index in VisNodes of pkg/errors.Cause(e)
	LibRoot   int      `json:"libRoot"`   // index in VisNodes of errors.UnwrapAll(e) / errors.Cause(e)
	CauseEq   bool     `json:"causeEq"`   // errors.Cause(e) and errors.UnwrapAll(e) are the same node
}

func sameNode(a, b error) bool {
	if a == nil || b == nil {
		return a == nil && b == nil
	}
	ta, tb := reflect.TypeOf(a), reflect.TypeOf(b)
	if ta != tb {
		return false
	}
	if ta.Comparable() {
		return a == b
	}
	return reflect.DeepEqual(a, b)
}

func indexOf(nodes []error, x error) int {
	if x == nil {
		return -1
	}
	for i, n := range nodes {
		if sameNode(n, x) {
			return i + 1
		}
	}
	return 0 // found something that is not a node of the tree
}

func asBoth(e error, nodes []error, mk func() (target interface{}, get func() error)) []int {
	t1, g1 := mk()
	t2, g2 := mk()
	si, li := -1, -1
	func() {
		defer func() {
			if r := recover(); r != nil {
				si = -9
			}
		}()
		if goerrors.As(e, t1) {
			si = indexOf(nodes, g1())
		}
	}()
	func() {
		defer func() {
			if r := recover(); r != nil {
				li = -9
			}
		}()
		if errors.As(e, t2) {
			li = indexOf(nodes, g2())
		}
	}()
	eq := 0
	if si >= 0 && li >= 0 && sameNode(g1(), g2()) {
		eq = 1
	}
	return []int{si, li, eq}
}

// StdOf computes the differential observation.
func StdOf(e error, pool []error) *Std {
	s := &Std{Is: make([]string, len(pool)), As: [][]int{}}
	for i, r := range pool {
		func() {
			defer func() {
				if x := recover(); x != nil {
					s.Is[i] = "P"
				}
			}()
			if goerrors.Is(e, r) {
				s.Is[i] = "T"
			} else {
				s.Is[i] = "F"
			}
		}()
	}
	su, lu := goerrors.Unwrap(e), errors.Unwrap(e)
	s.StdUnwNil, s.LibUnwNil = su == nil, lu == nil
	s.UnwrapEq = sameNode(su, lu)
	nodes := VisNodes(e)
	s.As = append(s.As,
		asBoth(e, nodes, func() (interface{}, func() error) {
			var t *utypes.UPtrLeaf
			return &t, func() error {
				if t == nil {
					return nil
				}
				return t
			}
		}),
		asBoth(e, nodes, func() (interface{}, func() error) {
			var t utypes.UValLeaf
			return &t, func() error { return t }
		}),
		asBoth(e, nodes, func() (interface{}, func() error) {
			var t interface{ Timeout() bool }
			return &t, func() error {
				if x, ok := t.(error); ok {
					return x
				}
				return nil
			}
		}),
		asBoth(e, nodes, func() (interface{}, func() error) {
			var t *os.PathError
			return &t, func() error {
				if t == nil {
					return nil
				}
				return t
			}
		}),
		asBoth(e, nodes, func() (interface{}, func() error) {
			var t syscall.Errno
			return &t, func() error { return t }
		}),
		asBoth(e, nodes, func() (interface{}, func() error) {
			var t interface{ ErrorHint() string }
			return &t, func() error {
				if x, ok := t.(error); ok {
					return x
				}
				return nil
			}
		}),
		asBoth(e, nodes, func() (interface{}, func() error) {
			var t *utypes.UWrapC
			return &t, func() error {
				if t == nil {
					return nil
				}
				return t
			}
		}),
	)
	s.PkgRoot = indexOf(nodes, pkgerrors.Cause(e))
	s.LibRoot = indexOf(nodes, errors.UnwrapAll(e))
	s.CauseEq = sameNode(errors.Cause(e), errors.UnwrapAll(e))
	return s
}

// WNode abstracts one node of the EncodedError produced for a value: the
// fields the specification's Enc operator predicts (conformance of the
// encoders, spec/Wire.tla).
type WNode struct {
	K    string   `json:"k"`    // leaf | wrap
	Msg  []string `json:"msg"`  // message (["?"] for barriers: the redactable form is not modelled)
	Fam  string   `json:"fam"`  // error_type_mark.family_name
	TN   string   `json:"tn"`   // original_type_name
	Ext  []string `json:"ext"`  // error_type_mark.extension
	Full bool     `json:"full"` // message_type == FULL_MESSAGE
	Pay  string   `json:"pay"`  // kind of full_details payload
	Kids []*WNode `json:"kids"`
}

func payKind(a *types.Any) string {
	if a == nil {
		return "none"
	}
	var da types.DynamicAny
	if err := types.UnmarshalAny(a, &da); err != nil {
		return "bad"
	}
	switch da.Message.(type) {
	case *errorspb.StringPayload:
		return "String"
	case *errorspb.StringsPayload:
		return "Strings"
	case *errorspb.TagsPayload:
		return "Tags"
	case *errorspb.MarkPayload:
		return "Mark"
	case *errorspb.ErrnoPayload:
		return "Errno"
	case *errorspb.EncodedError:
		return "EncodedError"
	case *errorspb.TestError:
		return "uProto"
	case *exthttp.EncodedHTTPCode, *extgrpc.EncodedGrpcCode:
		return "Code"
	}
	return "Status"
}

func wnode(enc *errorspb.EncodedError) *WNode {
	n := &WNode{Kids: []*WNode{}}
	var det *errorspb.EncodedErrorDetails
	msg := ""
	if w := enc.GetWrapper(); w != nil {
		n.K, det, msg = "wrap", &w.Details, w.Message
		n.Full = w.MessageType == errorspb.MessageType_FULL_MESSAGE
		n.Kids = append(n.Kids, wnode(&w.Cause))
	} else if l := enc.GetLeaf(); l != nil {
		n.K, det, msg = "leaf", &l.Details, l.Message
		for _, c := range l.MultierrorCauses {
			n.Kids = append(n.Kids, wnode(c))
		}
	} else {
		n.K = "unset"
		return n
	}
	n.Fam = cat.FamOf(det.ErrorTypeMark.FamilyName)
	n.TN = cat.FamOf(det.OriginalTypeName)
	n.Ext = tok.Lex(det.ErrorTypeMark.Extension)
	n.Pay = payKind(det.FullDetails)
	if n.Fam == "barrierErr" {
		n.Msg = []string{"?"}
	} else {
		n.Msg = tok.Lex(msg)
	}
	return n
}

// WireOf abstracts EncodeError(e).
func WireOf(e error) *WNode {
	enc := errors.EncodeError(context.Background(), e)
	return wnode(&enc)
}
