// Package faults builds structurally complete EncodedError messages with
// faulty contents (C05): for a type key of the live registries, a payload
// that is absent / not unmarshallable / an empty message of any known
// payload type, too few or extra detail strings, any message-type value, at
// any position of a carrier chain; and seeded random well-formed wire trees.
package faults

import (
	"context"
	goerrors "errors"
	"fmt"
	"math/rand"
	"os"
	"reflect"
	"sort"
	"strings"
	"verifharness/internal/cat"

	"github.com/cockroachdb/errors"
	"github.com/cockroachdb/errors/errbase"
	"github.com/cockroachdb/errors/errorspb"
	"github.com/cockroachdb/errors/extgrpc"
	"github.com/cockroachdb/errors/exthttp"
	"github.com/cockroachdb/errors/oserror"
	"github.com/cockroachdb/redact"
	"github.com/gogo/protobuf/proto"
	"github.com/gogo/protobuf/types"
	"github.com/gogo/status"
	"google.golang.org/grpc/codes"
)

// payloadTypes: every proto message type some decoder of the library reads.
func payloadSamples() map[string]proto.Message {
	leaf := errors.EncodeError(context.Background(), goerrors.New("x"))
	return map[string]proto.Message{
		"String":  &errorspb.StringPayload{},
		"Strings": &errorspb.StringsPayload{},
		"Tags":    &errorspb.TagsPayload{},
		"Mark":    &errorspb.MarkPayload{},
		"Errno":   &errorspb.ErrnoPayload{},
		// (an empty EncodedError is not listed: it has neither leaf nor wrapper set,
		// which C05 excludes as structurally incomplete)
		"EncodedLeaf": &leaf,
		"HTTPCode":    &exthttp.EncodedHTTPCode{},
		"GrpcCode":    &extgrpc.EncodedGrpcCode{},
		"Status":      status.New(codes.NotFound, "x").Proto(),
	}
}

// PayloadKinds lists the payload faults.
func PayloadKinds() []string {
	ks := []string{"none", "badany", "emptyany"}
	for k := range payloadSamples() {
		// a valid message of that type, and its type URL with a value that
		// cannot be unmarshalled
		ks = append(ks, "msg:"+k, "corrupt:"+k)
	}
	sort.Strings(ks)
	return ks
}

// Registry is the dump read by the specification.
type Registry struct {
	Leaf  []string `json:"leaf"`
	Wrap  []string `json:"wrap"`
	Multi []string `json:"multi"`
	Pay   []string `json:"pay"`
	// type keys of catalogue types that have no decoder: the library may still
	// treat them specially by name (printed stacks, encoders)
	NamedLeaf []string `json:"namedLeaf"`
	NamedWrap []string `json:"namedWrap"`
}

// Dump lists the decoder keys of the live registries.
func Dump() *Registry {
	reg := errbase.VerifRegistryKeys()
	r := &Registry{Leaf: reg["leafDecoders"], Wrap: reg["decoders"], Multi: reg["multiCauseDecoders"], Pay: PayloadKinds(),
		NamedLeaf: []string{}, NamedWrap: []string{}}
	has := map[string]bool{}
	for _, l := range [][]string{r.Leaf, r.Wrap, r.Multi} {
		for _, k := range l {
			has[k] = true
		}
	}
	var names []string
	for ty := range cat.Samples {
		names = append(names, ty)
	}
	sort.Strings(names)
	for _, ty := range names {
		e := cat.Samples[ty]
		k := string(errors.GetTypeKey(e))
		if has[k] {
			continue
		}
		has[k] = true
		if errors.UnwrapOnce(e) != nil {
			r.NamedWrap = append(r.NamedWrap, k)
		} else {
			r.NamedLeaf = append(r.NamedLeaf, k)
		}
	}
	// encoder-only keys
	for _, k := range reg["leafEncoders"] {
		if !has[k] {
			has[k] = true
			r.NamedLeaf = append(r.NamedLeaf, k)
		}
	}
	for _, k := range reg["encoders"] {
		if !has[k] {
			has[k] = true
			r.NamedWrap = append(r.NamedWrap, k)
		}
	}
	return r
}

// StackLike are reportable strings in the style of a printed stack trace, well
// formed and not.
var StackLike = []string{
	"\nmain.f\n\t/src/main.go:12\nmain.main\n\t/src/main.go:30\nruntime.main\n\t/go/src/runtime/proc.go:250",
	"main.f\n\t/src/main.go:12\n\t\t(inlined)\nmain.main\n\t/src/main.go:30",
	"\t/src/main.go:12\n\t/src/main.go:13\n\t\n\t",
	"unknown\nunknown\nmain.f\n\tno-line-number\nmain.g\n\t/x.go:99999999999999999999999\nmain.h\n\t:\n\n\n",
	"main.f\n\t/src/main.go:12\n\t/src/main.go:13",
	"\n\n",
}

func anyOf(kind string) *types.Any {
	switch {
	case kind == "none":
		return nil
	case kind == "badany":
		return &types.Any{TypeUrl: "type.googleapis.com/does.not.Exist", Value: []byte{0xff, 0x01, 0x02}}
	case kind == "emptyany":
		return &types.Any{}
	case strings.HasPrefix(kind, "corrupt:"):
		a, err := types.MarshalAny(payloadSamples()[kind[8:]])
		if err != nil {
			panic("harness: " + err.Error())
		}
		// truncated / garbage value under a registered type URL
		a.Value = append([]byte{0x0a, 0x7f, 0xff}, a.Value...)
		return a
	case strings.HasPrefix(kind, "msg:"):
		m := payloadSamples()[kind[4:]]
		a, err := types.MarshalAny(m)
		if err != nil {
			panic("harness: " + err.Error())
		}
		return a
	}
	panic("harness: unknown payload kind " + kind)
}

func goodLeaf() errorspb.EncodedError {
	return errors.EncodeError(context.Background(), goerrors.New("Zq1x"))
}

// Build constructs the faulty message.
//
//	form: leaf | wrap | multi (which registry the key belongs to)
//	pos:  top | underWrapper | multiCause | inBarrier | inSecondary
func Build(key, form, pay, pos string, ndet, mt int) errorspb.EncodedError {
	det := errorspb.EncodedErrorDetails{
		OriginalTypeName: key,
		ErrorTypeMark:    errorspb.ErrorTypeMark{FamilyName: key, Extension: ""},
		FullDetails:      anyOf(pay),
	}
	for i := 0; i < ndet; i++ {
		det.ReportablePayload = append(det.ReportablePayload, fmt.Sprintf("Zq%dx", 50+i))
	}
	if ndet < 0 {
		// -k: the k-th stack-like string as first reportable string
		det.ReportablePayload = append(det.ReportablePayload, StackLike[(-ndet-1)%len(StackLike)], "Zq51x")
	}
	var node errorspb.EncodedError
	switch form {
	case "wrap":
		node = errorspb.EncodedError{Error: &errorspb.EncodedError_Wrapper{Wrapper: &errorspb.EncodedWrapper{
			Cause: goodLeaf(), Message: "Zq2x", Details: det, MessageType: errorspb.MessageType(mt)}}}
	case "multi":
		c1, c2 := goodLeaf(), goodLeaf()
		node = errorspb.EncodedError{Error: &errorspb.EncodedError_Leaf{Leaf: &errorspb.EncodedErrorLeaf{
			Message: "Zq2x", Details: det, MultierrorCauses: []*errorspb.EncodedError{&c1, &c2}}}}
	default:
		node = errorspb.EncodedError{Error: &errorspb.EncodedError_Leaf{Leaf: &errorspb.EncodedErrorLeaf{
			Message: "Zq2x", Details: det}}}
	}
	ctx := context.Background()
	base := goerrors.New("Zq3x")
	switch pos {
	case "top":
		return node
	case "underWrapper":
		w := errors.EncodeError(ctx, errors.WithHint(base, "Zq4x"))
		w.GetWrapper().Cause = node
		return w
	case "multiCause":
		j := errors.EncodeError(ctx, errors.Join(base, base))
		// Join is withStack(joinError): put the node as second branch
		inner := &j.GetWrapper().Cause
		inner.GetLeaf().MultierrorCauses[1] = &node
		return j
	case "inBarrier":
		b := errors.EncodeError(ctx, errors.Handled(base))
		a, err := types.MarshalAny(&node)
		if err != nil {
			panic("harness: " + err.Error())
		}
		b.GetLeaf().Details.FullDetails = a
		return b
	case "inSecondary":
		s := errors.EncodeError(ctx, errors.WithSecondaryError(base, base))
		a, err := types.MarshalAny(&node)
		if err != nil {
			panic("harness: " + err.Error())
		}
		s.GetWrapper().Details.FullDetails = a
		return s
	}
	panic("harness: unknown position " + pos)
}

// Fuzz builds a seeded random well-formed wire tree with arbitrary family
// names, messages, details, payloads and message types.
func Fuzz(seed int) errorspb.EncodedError {
	r := rand.New(rand.NewSource(int64(seed)))
	reg := Dump()
	var keys []string
	keys = append(keys, reg.Leaf...)
	keys = append(keys, reg.Wrap...)
	keys = append(keys, reg.Multi...)
	keys = append(keys, reg.NamedLeaf...)
	keys = append(keys, reg.NamedWrap...)
	keys = append(keys, "", "no/such.Type", "\xff\x00", "‹›")
	pays := PayloadKinds()
	strs := []string{"", "Zq7x", "a: b", "‹x›", "\n", "%d %s", "\xff", "x\ny", strings.Repeat("z", 300)}
	strs = append(strs, StackLike...)
	var gen func(depth int) errorspb.EncodedError
	gen = func(depth int) errorspb.EncodedError {
		key := keys[r.Intn(len(keys))]
		det := errorspb.EncodedErrorDetails{
			OriginalTypeName: strs[r.Intn(len(strs))],
			ErrorTypeMark:    errorspb.ErrorTypeMark{FamilyName: key, Extension: strs[r.Intn(len(strs))]},
			FullDetails:      anyOf(pays[r.Intn(len(pays))]),
		}
		if r.Intn(4) == 0 && depth > 0 {
			inner := gen(depth - 1)
			if a, err := types.MarshalAny(&inner); err == nil {
				det.FullDetails = a
			}
		}
		for i := r.Intn(4); i > 0; i-- {
			det.ReportablePayload = append(det.ReportablePayload, strs[r.Intn(len(strs))])
		}
		if depth > 0 && r.Intn(3) > 0 {
			if r.Intn(2) == 0 {
				return errorspb.EncodedError{Error: &errorspb.EncodedError_Wrapper{Wrapper: &errorspb.EncodedWrapper{
					Cause: gen(depth - 1), Message: strs[r.Intn(len(strs))], Details: det,
					MessageType: errorspb.MessageType(r.Intn(4) - 1)}}}
			}
			n := 1 + r.Intn(3)
			var cs []*errorspb.EncodedError
			for i := 0; i < n; i++ {
				c := gen(depth - 1)
				cs = append(cs, &c)
			}
			return errorspb.EncodedError{Error: &errorspb.EncodedError_Leaf{Leaf: &errorspb.EncodedErrorLeaf{
				Message: strs[r.Intn(len(strs))], Details: det, MultierrorCauses: cs}}}
		}
		return errorspb.EncodedError{Error: &errorspb.EncodedError_Leaf{Leaf: &errorspb.EncodedErrorLeaf{
			Message: strs[r.Intn(len(strs))], Details: det}}}
	}
	return gen(3)
}

// Decode marshals, unmarshals and decodes a wire message, recovering a panic.
func Decode(enc errorspb.EncodedError) (res error, panicked string) {
	defer func() {
		if r := recover(); r != nil {
			panicked = fmt.Sprint(r)
		}
	}()
	b, err := proto.Marshal(&enc)
	if err != nil {
		panic("harness: marshal: " + err.Error())
	}
	var dec errorspb.EncodedError
	if err := proto.Unmarshal(b, &dec); err != nil {
		panic("harness: unmarshal: " + err.Error())
	}
	return errors.DecodeError(context.Background(), dec), ""
}

func try(name string, out *[]string, f func()) {
	defer func() {
		if r := recover(); r != nil {
			*out = append(*out, name)
		}
	}()
	f()
}

// Observers runs every observer of the public API on e and returns the names
// of those that panicked.
func Observers(e error) []string {
	out := []string{}
	for _, verb := range []string{"%v", "%+v", "%s", "%q", "%x", "%X", "%#v", "%d", "%10.3v", "%-8q"} {
		verb := verb
		try("fmt"+verb, &out, func() { _ = fmt.Sprintf(verb, e) })
		try("fmtF"+verb, &out, func() { _ = fmt.Sprintf(verb, errors.Formattable(e)) })
	}
	for _, verb := range []string{"%v", "%+v", "%s", "%q", "%x"} {
		verb := verb
		try("redact"+verb, &out, func() { _ = redact.Sprintf(verb, e).Redact() })
	}
	try("Error", &out, func() { _ = e.Error() })
	try("Redact", &out, func() { _ = errors.Redact(e) })
	try("UnwrapAll", &out, func() { _ = errors.UnwrapAll(e) })
	try("hints", &out, func() { _ = errors.FlattenHints(e); _ = errors.FlattenDetails(e) })
	try("links", &out, func() { _ = errors.GetAllIssueLinks(e); _ = errors.HasIssueLink(e) })
	try("keys", &out, func() { _ = errors.GetTelemetryKeys(e) })
	try("tags", &out, func() { _ = errors.GetContextTags(e) })
	try("domain", &out, func() { _ = errors.GetDomain(e) })
	try("flags", &out, func() {
		_ = errors.HasAssertionFailure(e)
		_ = errors.HasUnimplementedError(e)
	})
	try("codes", &out, func() { _ = exthttp.GetHTTPCode(e, 0); _ = extgrpc.GetGrpcCode(e) })
	try("safe", &out, func() { _ = errors.GetAllSafeDetails(e) })
	try("Is", &out, func() { _ = errors.Is(e, e); _ = errors.Is(e, goerrors.New("x")); _ = errors.IsAny(e, e, nil) })
	try("As", &out, func() {
		var t interface{ Timeout() bool }
		_ = errors.As(e, &t)
		_ = errors.HasType(e, goerrors.New("x"))
	})
	try("source", &out, func() { _, _, _, _ = errors.GetOneLineSource(e); _ = errors.GetReportableStackTrace(e) })
	try("report", &out, func() { _, _ = errors.BuildSentryReport(e) })
	try("reencode", &out, func() {
		enc := errors.EncodeError(context.Background(), e)
		if _, err := proto.Marshal(&enc); err != nil {
			panic(err)
		}
	})
	try("mark", &out, func() { _ = errors.Is(errors.Mark(goerrors.New("y"), e), e) })
	// OS-level predicates and the methods they rest on
	try("os", &out, func() {
		_ = oserror.IsPermission(e)
		_ = oserror.IsExist(e)
		_ = oserror.IsNotExist(e)
		_ = oserror.IsTimeout(e)
		_ = os.IsTimeout(e)
		var t interface{ Timeout() bool }
		if errors.As(e, &t) {
			_ = t.Timeout()
		}
		var tmp interface{ Temporary() bool }
		if errors.As(e, &tmp) {
			_ = tmp.Temporary()
		}
	})
	// the standard library's view
	try("std", &out, func() {
		_ = goerrors.Is(e, e)
		_ = goerrors.Unwrap(e)
		var t interface{ Timeout() bool }
		_ = goerrors.As(e, &t)
	})
	// every layer on its own
	try("walk", &out, func() {
		var visit func(n error, depth int)
		visit = func(n error, depth int) {
			if n == nil || depth > 64 {
				return
			}
			_ = n.Error()
			_ = errors.GetSafeDetails(n)
			_ = errors.GetTypeKey(n)
			_ = errors.UnwrapOnce(n)
			_ = errors.NotInDomain(n, errors.NoDomain)
			_ = errors.HasInterface(n, (*interface{ ErrorHint() string })(nil))
			if c := errors.UnwrapOnce(n); c != nil {
				visit(c, depth+1)
			}
			if m, ok := n.(interface{ Unwrap() []error }); ok {
				for _, c := range m.Unwrap() {
					visit(c, depth+1)
				}
			}
		}
		visit(e, 0)
	})
	return out
}

var _ = reflect.TypeOf
