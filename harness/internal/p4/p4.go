// Package p4 holds user frame number 4 of the call-stack experiments (C16).
package p4

import (
	"verifharness/internal/p1"
	"verifharness/internal/p3"
)

// F4 calls the next frame down; the call sits on the same line as its Here().
//
//go:noinline
func F4(api string, d int) (r p1.Result) {
	r, p1.Lines[3] = p3.F3(api, d), p1.Here()
	return r
}

// Deep calls F4 below n more frames.
//
//go:noinline
func Deep(n int, api string, d int) p1.Result {
	if n <= 0 {
		return F4(api, d)
	}
	r := Deep(n-1, api, d)
	return r
}
