// Package p1 holds the innermost user frame of the call-stack experiments
// (C16): F1 is the function that calls the library.
package p1

import (
	goerrors "errors"
	"runtime"

	"github.com/cockroachdb/errors"
	"github.com/cockroachdb/errors/domains"
	"github.com/cockroachdb/errors/errutil"
	"github.com/cockroachdb/errors/grpc/status"
	"github.com/cockroachdb/errors/withstack"
	"google.golang.org/grpc/codes"
)

// Lines[k] is the line of the call made by the k-th user frame (0 = F1's call
// into the library).
var Lines [5]int

// Here returns the line of its caller.
//
//go:noinline
func Here() int {
	_, _, l, _ := runtime.Caller(1)
	return l
}

// Result of one call.
type Result struct {
	Err error         // error produced (nil for pure domain functions)
	Dom errors.Domain // domain produced (for domain functions)
	OK  bool          // the API name is known
}

// F1 calls the library function `api` with depth argument d (ignored by
// functions without one). Every call sits on the same line as its Here().
//
//go:noinline
func F1(api string, d int) (r Result) {
	base := goerrors.New("Zq1x")
	r.OK = true
	switch api {
	case "errors.New":
		r.Err, Lines[0] = errors.New("Zq2x"), Here()
	case "errors.NewWithDepth":
		r.Err, Lines[0] = errors.NewWithDepth(d, "Zq2x"), Here()
	case "errors.Newf":
		r.Err, Lines[0] = errors.Newf("Zq2x %d", 1), Here()
	case "errors.NewWithDepthf":
		r.Err, Lines[0] = errors.NewWithDepthf(d, "Zq2x %d", 1), Here()
	case "errors.Errorf":
		r.Err, Lines[0] = errors.Errorf("Zq2x %d", 1), Here()
	case "errors.Wrap":
		r.Err, Lines[0] = errors.Wrap(base, "Zq2x"), Here()
	case "errors.WrapWithDepth":
		r.Err, Lines[0] = errors.WrapWithDepth(d, base, "Zq2x"), Here()
	case "errors.Wrap#empty":
		r.Err, Lines[0] = errors.Wrap(base, ""), Here()
	case "errors.WrapWithDepth#empty":
		r.Err, Lines[0] = errors.WrapWithDepth(d, base, ""), Here()
	case "errors.Wrapf#empty":
		r.Err, Lines[0] = errors.Wrapf(base, ""), Here()
	case "errors.WrapWithDepthf#empty":
		r.Err, Lines[0] = errors.WrapWithDepthf(d, base, ""), Here()
	case "errors.New#empty":
		r.Err, Lines[0] = errors.New(""), Here()
	case "errors.Newf#w":
		r.Err, Lines[0] = errors.Newf("Zq2x %w", base), Here()
	case "errors.NewWithDepthf#w":
		r.Err, Lines[0] = errors.NewWithDepthf(d, "Zq2x %w %v", base, base), Here()
	case "errors.WrapWithDepthf#err":
		r.Err, Lines[0] = errors.WrapWithDepthf(d, base, "Zq2x %v", base), Here()
	case "errors.Join#nil":
		r.Err, Lines[0] = errors.Join(nil, base), Here()
	case "errutil.Wrap#empty":
		r.Err, Lines[0] = errutil.Wrap(base, ""), Here()
	case "errutil.WrapWithDepth#empty":
		r.Err, Lines[0] = errutil.WrapWithDepth(d, base, ""), Here()
	case "errutil.WrapWithDepthf#empty":
		r.Err, Lines[0] = errutil.WrapWithDepthf(d, base, ""), Here()
	case "errors.Wrapf":
		r.Err, Lines[0] = errors.Wrapf(base, "Zq2x %d", 1), Here()
	case "errors.WrapWithDepthf":
		r.Err, Lines[0] = errors.WrapWithDepthf(d, base, "Zq2x %d", 1), Here()
	case "errors.WithStack":
		r.Err, Lines[0] = errors.WithStack(base), Here()
	case "errors.WithStackDepth":
		r.Err, Lines[0] = errors.WithStackDepth(base, d), Here()
	case "errors.AssertionFailedf":
		r.Err, Lines[0] = errors.AssertionFailedf("Zq2x %d", 1), Here()
	case "errors.AssertionFailedWithDepthf":
		r.Err, Lines[0] = errors.AssertionFailedWithDepthf(d, "Zq2x %d", 1), Here()
	case "errors.HandleAsAssertionFailure":
		r.Err, Lines[0] = errors.HandleAsAssertionFailure(base), Here()
	case "errors.HandleAsAssertionFailureDepth":
		r.Err, Lines[0] = errors.HandleAsAssertionFailureDepth(d, base), Here()
	case "errors.NewAssertionErrorWithWrappedErrf":
		r.Err, Lines[0] = errors.NewAssertionErrorWithWrappedErrf(base, "Zq2x %d", 1), Here()
	case "errors.Join":
		r.Err, Lines[0] = errors.Join(base, base), Here()
	case "errors.JoinWithDepth":
		r.Err, Lines[0] = errors.JoinWithDepth(d, base, base), Here()
	case "errors.PackageDomain":
		r.Dom, Lines[0] = errors.PackageDomain(), Here()
	case "errors.PackageDomainAtDepth":
		r.Dom, Lines[0] = errors.PackageDomainAtDepth(d), Here()
	case "errutil.New":
		r.Err, Lines[0] = errutil.New("Zq2x"), Here()
	case "errutil.NewWithDepth":
		r.Err, Lines[0] = errutil.NewWithDepth(d, "Zq2x"), Here()
	case "errutil.Newf":
		r.Err, Lines[0] = errutil.Newf("Zq2x %d", 1), Here()
	case "errutil.NewWithDepthf":
		r.Err, Lines[0] = errutil.NewWithDepthf(d, "Zq2x %d", 1), Here()
	case "errutil.Wrap":
		r.Err, Lines[0] = errutil.Wrap(base, "Zq2x"), Here()
	case "errutil.WrapWithDepth":
		r.Err, Lines[0] = errutil.WrapWithDepth(d, base, "Zq2x"), Here()
	case "errutil.Wrapf":
		r.Err, Lines[0] = errutil.Wrapf(base, "Zq2x %d", 1), Here()
	case "errutil.WrapWithDepthf":
		r.Err, Lines[0] = errutil.WrapWithDepthf(d, base, "Zq2x %d", 1), Here()
	case "errutil.AssertionFailedf":
		r.Err, Lines[0] = errutil.AssertionFailedf("Zq2x %d", 1), Here()
	case "errutil.AssertionFailedWithDepthf":
		r.Err, Lines[0] = errutil.AssertionFailedWithDepthf(d, "Zq2x %d", 1), Here()
	case "errutil.HandleAsAssertionFailure":
		r.Err, Lines[0] = errutil.HandleAsAssertionFailure(base), Here()
	case "errutil.HandleAsAssertionFailureDepth":
		r.Err, Lines[0] = errutil.HandleAsAssertionFailureDepth(d, base), Here()
	case "errutil.NewAssertionErrorWithWrappedErrf":
		r.Err, Lines[0] = errutil.NewAssertionErrorWithWrappedErrf(base, "Zq2x %d", 1), Here()
	case "errutil.NewAssertionErrorWithWrappedErrDepthf":
		r.Err, Lines[0] = errutil.NewAssertionErrorWithWrappedErrDepthf(d, base, "Zq2x %d", 1), Here()
	case "errutil.JoinWithDepth":
		r.Err, Lines[0] = errutil.JoinWithDepth(d, base, base), Here()
	case "withstack.WithStack":
		r.Err, Lines[0] = withstack.WithStack(base), Here()
	case "withstack.WithStackDepth":
		r.Err, Lines[0] = withstack.WithStackDepth(base, d), Here()
	case "domains.New":
		r.Err, Lines[0] = domains.New("Zq2x"), Here()
	case "domains.Handled":
		r.Err, Lines[0] = domains.Handled(base), Here()
	case "domains.PackageDomain":
		r.Dom, Lines[0] = domains.PackageDomain(), Here()
	case "status.Error":
		r.Err, Lines[0] = status.Error(codes.NotFound, "Zq2x"), Here()
	case "status.Errorf":
		r.Err, Lines[0] = status.Errorf(codes.NotFound, "Zq2x %d", 1), Here()
	case "status.WrapErr":
		r.Err, Lines[0] = status.WrapErr(codes.NotFound, "Zq2x", base), Here()
	case "status.WrapErrf":
		r.Err, Lines[0] = status.WrapErrf(codes.NotFound, base, "Zq2x %d", 1), Here()
	case "domains.PackageDomainAtDepth":
		r.Dom, Lines[0] = domains.PackageDomainAtDepth(d), Here()
	default:
		r.OK = false
	}
	return r
}
