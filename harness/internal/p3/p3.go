// Package p3 holds user frame number 3 of the call-stack experiments (C16).
package p3

import (
	"verifharness/internal/p1"
	"verifharness/internal/p2"
)

// F3 calls the next frame down; the call sits on the same line as its Here().
//
//go:noinline
func F3(api string, d int) (r p1.Result) {
	r, p1.Lines[2] = p2.F2(api, d), p1.Here()
	return r
}
